// harnesses (h_popen_os)
