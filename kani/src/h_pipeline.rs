// Harnesses living inside `mod pipeline`: they see Pipeline's private fields
// and setup_communicate.
#[cfg(kani)]
mod vh_pipeline {
    use super::*;
    use crate::mk;
    use crate::mk::proc_ as mp;
    use crate::mk::Obj;
    use crate::os_common::StandardStream;
    use crate::popen::PopenError;
    use std::os::unix::io::FromRawFd;

    pub fn gss(which: StandardStream) -> io::Result<Rc<File>> {
        crate::posix::make_standard_stream(which)
    }

    /// the wait-status truth (same as in vh_popen)
    pub fn truth(w: i32) -> ExitStatus {
        if w & 0x7f == 0 {
            ExitStatus::Exited(((w >> 8) & 0xff) as u32)
        } else {
            ExitStatus::Signaled((w & 0x7f) as u8)
        }
    }

    pub struct Plan {
        pub n: usize,
        pub in_pipe: bool,
        pub out_pipe: bool,
        pub stderr_shared: bool,
        pub capture: bool,
    }

    pub unsafe fn build(pl: &Plan) -> Pipeline {
        let a = Exec::cmd("/a");
        let b = Exec::cmd("/b");
        let mut p = if pl.n == 2 { a | b } else { a | b | Exec::cmd("/c") };
        if pl.in_pipe {
            p = p.stdin(Redirection::Pipe);
        }
        if pl.out_pipe && !pl.capture {
            p = p.stdout(Redirection::Pipe);
        }
        if pl.stderr_shared && !pl.capture {
            mk::open_file_at(3, 7, true);
            p = p.stderr_to(File::from_raw_fd(3));
        }
        p
    }

    /// expected fds 0,1,2 of stage j (0-based) from the plan alone
    pub unsafe fn expect_stage(pl: &Plan, j: usize, base: u8) {
        let mut p = base;
        let mut err_pipe = 0;
        if pl.capture {
            err_pipe = p;
            p += 1;
        }
        let mut inpipe = 0;
        let mut outpipe: [Option<u8>; 3] = [None; 3];
        let mut idx = 0;
        while idx < 3 {
            if idx < pl.n {
                p += 1; // status pipe of this stage
                if idx == 0 && pl.in_pipe {
                    inpipe = p;
                    p += 1;
                }
                if idx != pl.n - 1 || pl.out_pipe || pl.capture {
                    outpipe[idx] = Some(p);
                    p += 1;
                }
            }
            idx += 1;
        }
        let fd0 = if j == 0 {
            if pl.in_pipe {
                Obj::PipeR(inpipe)
            } else {
                Obj::Std(0)
            }
        } else {
            match outpipe[j - 1] {
                Some(q) => Obj::PipeR(q),
                None => Obj::Closed,
            }
        };
        let fd1 = match outpipe[j] {
            Some(q) => Obj::PipeW(q),
            None => Obj::Std(1),
        };
        let fd2 = if pl.capture {
            Obj::PipeW(err_pipe)
        } else if pl.stderr_shared {
            Obj::File(7)
        } else {
            Obj::Std(2)
        };
        mp::EXPECT_FD = [fd0, fd1, fd2];
        mp::EXPECT_FD_SET = true;
    }

    pub fn any_plan(capture: bool) -> Plan {
        let n: usize = if kani::any() { 2 } else { 3 };
        Plan { n, in_pipe: kani::any(), out_pipe: kani::any(), stderr_shared: kani::any(), capture }
    }

    /// Child role at a symbolic stage j of `popen()`: wiring (C13), nothing else of the
    /// pipeline visible (C08/C13), clean signal state (C18).
    #[kani::proof]
    #[kani::stub(crate::popen::get_standard_stream, gss)]
    #[kani::stub(std::env::var_os, crate::posix::vh_posix::var_os_model)]
    #[kani::stub(crate::posix::fcntl, crate::mk::fcntl_model)]
    fn h_pipe_child() {
        mk::link_model();
        unsafe {
            mk::reset();
            mk::init_std_fds();
            mk::sig::MASK = kani::any();
            let pl = any_plan(false);
            let j: usize = kani::any();
            kani::assume(j < pl.n);
            mp::AUTO_STATUS = true;
            mp::CHILD_AT_FORK = (j + 1) as u32;
            expect_stage(&pl, j, 0);
            let p = build(&pl);
            let r = p.popen();
            vcheck!(C13, false, "C13/stage-started: a stage of a valid pipeline was not started (the child role did not reach exec)");
            std::mem::forget(r);
        }
    }

    /// Child role at stage j when the pipeline is run through capture()/communicate():
    /// the terminator's own stderr pipe is created first.
    #[kani::proof]
    #[kani::stub(crate::popen::get_standard_stream, gss)]
    #[kani::stub(std::env::var_os, crate::posix::vh_posix::var_os_model)]
    #[kani::stub(crate::posix::fcntl, crate::mk::fcntl_model)]
    fn h_pipe_capture_child() {
        mk::link_model();
        unsafe {
            mk::reset();
            mk::init_std_fds();
            let pl = any_plan(true);
            let j: usize = kani::any();
            kani::assume(j < pl.n);
            mp::AUTO_STATUS = true;
            mp::SKIP_PIPES = 1;
            mp::CHILD_AT_FORK = (j + 1) as u32;
            expect_stage(&pl, j, 0);
            let p = build(&pl);
            let r = p.setup_communicate();
            vcheck!(C13, false, "C13/stage-started: a stage of a valid pipeline was not started (the child role did not reach exec)");
            std::mem::forget(r);
        }
    }

    /// deadlock oracle for blocking waits: the parent must not wait for child c
    /// while holding the write end of a pipe c reads (c may be waiting for
    /// end-of-file) or the read end of a pipe c writes (c may be blocked on a full pipe)
    pub unsafe fn blocking_wait_oracle(k: usize) {
        let mine = mp::mask_of_open_pipe_ends();
        let his = mp::KIDS[k].holds;
        let his_read = his & 0xff;
        let his_write = (his >> 8) & 0xff;
        let my_read = mine & 0xff;
        let my_write = (mine >> 8) & 0xff;
        // the status pipe is not a data pipe: the child's copy is close-on-exec
        let sp = mp::KIDS[k].status_pipe;
        let spm: u16 = if sp < 8 { !(1u16 << sp) } else { 0xffff };
        vcheck!(C14, (his_read & my_write & spm) == 0, "C14/no-wait-holding-childs-stdin: the parent waits for a started stage while still holding the write end of that stage's stdin pipe (the stage waits for end-of-file: hang)");
        vcheck!(C12, (his_read & my_write & spm) == 0, "C12/no-wait-holding-childs-stdin: a handle waits for its child while still holding the write end of the child's stdin pipe");
        vcheck!(C12, (his_write & my_read & spm) == 0, "C12/no-wait-holding-childs-output: a handle waits for its child while still holding the read end of a pipe the child writes to (a child blocked on a full pipe is never released)");
    }

    /// Parent role: join() returns the last stage's status after every stage has been reaped.
    #[kani::proof]
    #[kani::stub(crate::popen::get_standard_stream, gss)]
    #[kani::stub(std::env::var_os, crate::posix::vh_posix::var_os_model)]
    #[kani::stub(crate::posix::fcntl, crate::mk::fcntl_model)]
    fn h_pipe_join() {
        mk::link_model();
        unsafe {
            mk::reset();
            mk::init_std_fds();
            let pl = Plan { n: if kani::any() { 2 } else { 3 }, in_pipe: false, out_pipe: false, stderr_shared: kani::any(), capture: false };
            mp::AUTO_STATUS = true;
            let c0: u8 = kani::any();
            let c1: u8 = kani::any();
            let c2: u8 = kani::any();
            mp::KID_STATUS = [(c0 as i32) << 8, (c1 as i32) << 8, if kani::any() { (c2 as i32) << 8 } else { 9 }];
            mp::AT_BLOCKING_WAIT = Some(blocking_wait_oracle);
            let p = build(&pl);
            let r = p.join();
            match r {
                Ok(s) => {
                    kani::cover!(true, "COVER/join-ok");
                    vcheck!(C13, s == truth(mp::KID_STATUS[pl.n - 1]), "C13/last-stage-status: join() does not return the last command's exit status");
                    let mut i = 0;
                    while i < 3 {
                        if i < pl.n {
                            vcheck!(C13, mp::KIDS[i].st == mp::KidSt::Reaped, "C13/all-stages-reaped: join() returned before every command had been waited for");
                            vcheck!(C12, mp::KIDS[i].st == mp::KidSt::Reaped, "C12/join-reaps-all: a stage was left unreaped after join()");
                        }
                        i += 1;
                    }
                    let mut f = 3;
                    while f < mk::NFD {
                        let e = mk::FDT[f];
                        let is_pipe = match e.obj { Obj::PipeR(_) | Obj::PipeW(_) => true, _ => false };
                        vcheck!(C13, !is_pipe, "C13/no-pipe-left: a pipeline pipe end is still open in the parent after join()");
                        f += 1;
                    }
                }
                Err(e) => {
                    vcheck!(C13, false, "C13/join-succeeds: join() of a pipeline whose stages all started failed");
                    std::mem::forget(e);
                }
            }
        }
    }

    /// C14: stage k cannot be started (its child reports errno e); terminator popen() / join().
    pub unsafe fn pipe_fail_case(use_join: bool) {
        mk::reset();
        mk::init_std_fds();
        let pl = Plan { n: if kani::any() { 2 } else { 3 }, in_pipe: kani::any(), out_pipe: kani::any(), stderr_shared: false, capture: false };
        let k: usize = kani::any();
        kani::assume(k < pl.n);
        let e: i32 = 2;
        mp::AUTO_STATUS = true;
        mp::KID_LAUNCH_ERRNO = [0; mp::NKID];
        mp::KID_LAUNCH_ERRNO[k] = e;
        mp::AT_BLOCKING_WAIT = Some(blocking_wait_oracle);
        let p = build(&pl);
        let failed = if use_join {
            let r = p.join();
            let f = match &r {
                Err(PopenError::IoError(ioe)) => ioe.raw_os_error() == Some(e),
                _ => false,
            };
            std::mem::forget(r);
            f
        } else {
            let r = p.popen();
            let f = match &r {
                Err(PopenError::IoError(ioe)) => ioe.raw_os_error() == Some(e),
                _ => false,
            };
            std::mem::forget(r);
            f
        };
        kani::cover!(k == 1 && pl.in_pipe, "COVER/second-stage-fails-with-piped-stdin");
        vcheck!(C14, failed, "C14/returns-that-error: starting the pipeline did not return the error of the command that could not be started");
        vcheck!(C14, mp::FORKS as usize == k + 1, "C14/no-later-command-started: a command after the failing one was started");
        let mut i = 0;
        while i < 3 {
            if i <= k {
                vcheck!(C14, mp::KIDS[i].st == mp::KidSt::Reaped, "C14/started-stages-reaped: a command already started was not waited for (zombie / orphan of the attempt)");
            }
            i += 1;
        }
        let mut f = 3;
        while f < mk::NFD {
            vcheck!(C14, mk::FDT[f].obj == Obj::Closed, "C14/no-descriptor-left: a descriptor opened by the failed pipeline start is still open in the parent");
            f += 1;
        }
    }

    #[kani::proof]
    #[kani::stub(crate::popen::get_standard_stream, gss)]
    #[kani::stub(std::env::var_os, crate::posix::vh_posix::var_os_model)]
    #[kani::stub(crate::posix::fcntl, crate::mk::fcntl_model)]
    fn h_pipe_fail_popen() {
        mk::link_model();
        unsafe { pipe_fail_case(false) }
    }

    #[kani::proof]
    #[kani::stub(crate::popen::get_standard_stream, gss)]
    #[kani::stub(std::env::var_os, crate::posix::vh_posix::var_os_model)]
    #[kani::stub(crate::posix::fcntl, crate::mk::fcntl_model)]
    fn h_pipe_fail_join() {
        mk::link_model();
        unsafe { pipe_fail_case(true) }
    }
}
