// harnesses (h_pipeline)
