// harnesses (h_builder)
