// Harnesses living inside `mod communicate` (file level): they see
// Communicator's private fields, communicate(), from_utf8_lossy.
#[cfg(kani)]
mod vh_comm {
    use super::*;
    use crate::mk;
    use crate::mk::comm as mc;
    use crate::mk::comm::{ERR, IN, OUT};
    use std::os::unix::io::FromRawFd;

    /// the lateness obligation is decided in its own harness (known finding, see known_findings.json)
    pub static mut LATE_CHECK: bool = false;

    pub struct Ex {
        pub c: Communicator,
        pub use_in: bool,
        pub use_out: bool,
        pub use_err: bool,
    }

    /// Set up an exchange.  `fresh`: pipes empty and untouched (start of a real
    /// exchange); otherwise arbitrary fill levels / offsets / closed peers (the
    /// state in the middle of any exchange).
    pub unsafe fn setup(use_in: bool, use_out: bool, use_err: bool, input_len: usize, fresh: bool, budget: u32) -> Ex {
        mk::reset();
        mk::init_std_fds();
        mc::ENABLED = true;
        mc::STEP_BUDGET = budget;
        let mut fin = None;
        let mut fout = None;
        let mut ferr = None;
        if use_in {
            mc::open_stream(IN, 3, 0);
            fin = Some(File::from_raw_fd(3));
        }
        if use_out {
            mc::open_stream(OUT, 4, 1);
            fout = Some(File::from_raw_fd(4));
        }
        if use_err {
            mc::open_stream(ERR, 5, 2);
            ferr = Some(File::from_raw_fd(5));
        }
        if fresh {
            let mut s = 0;
            while s < 3 {
                if mc::S[s].used {
                    mc::S[s].buffered = 0;
                    mc::S[s].total_in = 0;
                    mc::S[s].total_out = 0;
                    mc::S[s].peer_open = true;
                }
                s += 1;
            }
        }
        kani::assume(!use_out || !use_err || mc::S[OUT].tag != mc::S[ERR].tag);
        mc::IN_BASE = mc::S[IN].total_in;
        mc::INPUT_LEN = input_len;
        let input = if use_in {
            let mut v = Vec::with_capacity(input_len);
            let mut i = 0;
            while i < mc::INMAX {
                if i < input_len {
                    let b: u8 = kani::any();
                    mc::INPUT[i] = b;
                    v.push(b);
                }
                i += 1;
            }
            Some(v)
        } else {
            None
        };
        let c = communicate(fin, fout, ferr, input);
        Ex { c, use_in, use_out, use_err }
    }

    pub const OUTMAX: usize = 12;

    /// content of a returned vector: exactly the bytes taken out of the pipe
    /// during this call, in order, starting at `base`
    pub unsafe fn check_stream(s: usize, used: bool, got: &Option<Vec<u8>>, base: usize) {
        vcheck!(C02, got.is_some() == used, "C02/absent-iff-not-piped: a stream's result is present although it was not piped (or absent although piped)");
        if let Some(v) = got {
            vcheck!(C02, v.len() == mc::S[s].total_out - base, "C02/nothing-lost-or-added: the number of bytes returned for a stream differs from the number of bytes read from its pipe in this call");
            let mut i = 0;
            while i < OUTMAX {
                if i < v.len() {
                    vcheck!(C02, v[i] == mc::g(mc::S[s].tag, base + i), "C02/bytes-verbatim-in-order: a returned byte is not the byte the child wrote at that position of that stream (lost, duplicated, reordered or credited to the other stream)");
                }
                i += 1;
            }
        }
    }

    pub unsafe fn all_eof(ex: &Ex) -> bool {
        (!ex.use_out || (!mc::S[OUT].peer_open && mc::S[OUT].buffered == 0)) && (!ex.use_err || (!mc::S[ERR].peer_open && mc::S[ERR].buffered == 0))
    }

    /// One read() with optional size limit `n` and time limit `t`; asserts the
    /// per-call obligations of C02/C03/C04.  Returns true iff it returned Ok.
    pub unsafe fn one_read(mut ex: Ex, limit: Option<usize>, tlimit: Option<Duration>) -> (Ex, bool) {
        let ob = mc::S[OUT].total_out;
        let eb = mc::S[ERR].total_out;
        mc::OUT_BASE = ob;
        mc::ERR_BASE = eb;
        let in_before = mc::S[IN].total_in;
        let mut c = ex.c;
        if let Some(n) = limit {
            c = c.limit_size(n);
            mc::LIMIT_SET = true;
            mc::LIMIT = n;
        }
        if let Some(t) = tlimit {
            c = c.limit_time(t);
            mc::DEADLINE_SET = true;
            mc::DEADLINE_S = mk::time::NOW_S + t.as_secs() as i64;
            mc::DEADLINE_NS = mk::time::NOW_NS + t.subsec_nanos() as i64;
            if mc::DEADLINE_NS >= 1_000_000_000 {
                mc::DEADLINE_NS -= 1_000_000_000;
                mc::DEADLINE_S += 1;
            }
        }
        ex.c = c;
        mc::IO_AFTER_DEADLINE = 0;
        let r = ex.c.read();
        let ok = r.is_ok();
        match r {
            Ok((o, e)) => {
                kani::cover!(true, "COVER/read-returned-ok");
                check_stream(OUT, ex.use_out, &o, ob);
                check_stream(ERR, ex.use_err, &e, eb);
                let n_out = match &o { Some(v) => v.len(), None => 0 };
                let n_err = match &e { Some(v) => v.len(), None => 0 };
                if let Some(n) = limit {
                    kani::cover!(n_out + n_err == n && !all_eof(&ex), "COVER/cut-short-by-limit");
                    vcheck!(C03, n_out + n_err <= n, "C03/at-most-n-bytes: a read returned more bytes in total than the size limit");
                    vcheck!(C03, n_out + n_err > 0 || all_eof(&ex), "C03/empty-means-eof: a successful read returned all-empty data although a captured stream has not reached end-of-file");
                    // cut short by the limit with input remaining: stdin stays open for later reads
                    if ex.use_in && mc::S[IN].total_in - mc::IN_BASE < mc::INPUT_LEN && mc::S[IN].peer_open {
                        vcheck!(C03, mc::S[IN].parent_open, "C03/input-keeps-flowing: the read was cut short by the limit with input left, but the child's stdin was closed");
                    }
                    // stopping short of the limit is only allowed at end-of-file
                    vcheck!(C03, n_out + n_err == n || all_eof(&ex), "C03/fills-up-to-limit: a read returned fewer bytes than the limit although more output may still come");
                } else {
                    // without a size limit a successful read means everything is finished
                    vcheck!(C02, all_eof(&ex), "C02/reads-to-eof: read() returned success although a captured stream had not reached end-of-file");
                    if ex.use_in {
                        vcheck!(C02, mc::S[IN].total_in - mc::IN_BASE == mc::INPUT_LEN, "C02/input-complete: read() returned success although not all input had been written");
                        vcheck!(C02, !mc::S[IN].parent_open, "C02/eof-after-last-byte: all input written but the child's stdin is still open after read() returned");
                    }
                }
                std::mem::forget((o, e));
            }
            Err(err) => {
                kani::cover!(true, "COVER/read-returned-err");
                let timed_out = err.error.kind() == ErrorKind::TimedOut;
                kani::cover!(timed_out, "COVER/read-timed-out");
                if timed_out {
                    vcheck!(C04, tlimit.is_some(), "C04/no-timeout-without-limit: read() reported a timeout although no time limit was set");
                    if tlimit.is_some() {
                        // to the millisecond granularity of the OS wait: now + 1 ms > deadline
                        let mut s1 = mk::time::NOW_S;
                        let mut n1 = mk::time::NOW_NS + 1_000_000;
                        if n1 >= 1_000_000_000 {
                            n1 -= 1_000_000_000;
                            s1 += 1;
                        }
                        let elapsed = s1 > mc::DEADLINE_S || (s1 == mc::DEADLINE_S && n1 > mc::DEADLINE_NS);
                        vcheck!(C04, elapsed, "C04/timeout-only-when-elapsed: a timeout was reported before the time limit had elapsed");
                    }
                } else {
                    // the only other error the model produces is EPIPE (child closed its stdin)
                    vcheck!(C02, ex.use_in && !mc::S[IN].peer_open, "C02/errors-are-real: read() failed although no system call failed");
                }
                // the error carries everything captured during this call
                check_stream(OUT, ex.use_out, &err.capture.0, ob);
                check_stream(ERR, ex.use_err, &err.capture.1, eb);
                std::mem::forget(err);
            }
        }
        if tlimit.is_some() && LATE_CHECK {
            vcheck!(C04, mc::IO_AFTER_DEADLINE <= 1, "C04/at-most-one-step-late: more than one I/O step was performed after the deadline had passed (the time limit is not honoured while streams stay ready)");
        }
        let _ = in_before;
        mc::LIMIT_SET = false;
        mc::DEADLINE_SET = false;
        (ex, ok)
    }

    pub unsafe fn finish(ex: Ex) {
        mc::CLOSE_BY_DROP = true;
        std::mem::forget(ex);
    }

    /// One read() on a fresh exchange without limits, bounded by `budget` parent system calls.
    pub unsafe fn trace_case(use_in: bool, use_out: bool, use_err: bool, input_len: usize, budget: u32) {
        let ex = setup(use_in, use_out, use_err, input_len, true, budget);
        let (ex, _) = one_read(ex, None, None);
        finish(ex);
    }

    /// Inductive step: arbitrary mid-exchange state, one read() cut after `budget` system calls.
    pub unsafe fn step_case(use_in: bool, use_out: bool, use_err: bool, input_len: usize, budget: u32) {
        let ex = setup(use_in, use_out, use_err, input_len, false, budget);
        let (ex, _) = one_read(ex, None, None);
        finish(ex);
    }

    /// Two successive reads with symbolic size limits n1, n2 >= 1 (arbitrary mid-exchange start).
    pub unsafe fn limit_case(use_in: bool, use_out: bool, use_err: bool, input_len: usize, budget: u32) {
        let ex = setup(use_in, use_out, use_err, input_len, false, budget);
        if budget <= 3 {
            // quick variant: transfers of at most 2 bytes per call
            mc::XFER_MAX = 2;
        }
        let n1: usize = kani::any();
        let n2: usize = kani::any();
        kani::assume(n1 >= 1 && n2 >= 1);
        let (ex, ok1) = one_read(ex, Some(n1), None);
        if ok1 {
            let (ex, _) = one_read(ex, Some(n2), None);
            kani::cover!(true, "COVER/second-limited-read");
            finish(ex);
        } else {
            finish(ex);
        }
    }

    pub unsafe fn any_now() {
        // the clock starts at second 0 with an arbitrary sub-second part (a symbolic
        // 40-bit start second triples the SAT time without adding behaviour)
        mk::time::NOW_S = 0;
        mk::time::NOW_NS = kani::any();
        kani::assume(mk::time::NOW_NS >= 0 && mk::time::NOW_NS < 1_000_000_000);
    }

    pub unsafe fn any_limit(big: bool) -> Duration {
        let secs: u64 = kani::any();
        let nanos: u32 = kani::any();
        kani::assume(nanos < 1_000_000_000);
        if big {
            // beyond the OS poll limit of 2^31-1 ms (24.8 days)
            kani::assume(secs >= 2_147_484 && secs <= 6_000_000);
        } else {
            kani::assume(secs <= 2);
        }
        Duration::new(secs, nanos)
    }

    /// One read with a time limit from an arbitrary mid-exchange state.
    pub unsafe fn time_case(use_in: bool, use_out: bool, use_err: bool, input_len: usize, budget: u32, big: bool, late: bool, resume: bool) {
        let ex = setup(use_in, use_out, use_err, input_len, false, budget);
        LATE_CHECK = late;
        let t = if budget <= 2 {
            // quick variant: clock starts at 0.0, limit below one second (nanosecond resolution)
            mk::time::NOW_S = 0;
            mk::time::NOW_NS = 0;
            let nanos: u32 = kani::any();
            kani::assume(nanos < 1_000_000_000);
            Duration::new(0, nanos)
        } else {
            any_now();
            any_limit(big)
        };
        let (ex, ok1) = one_read(ex, None, Some(t));
        if resume && !ok1 {
            // later reads resume exactly where the exchange stopped
            let (ex, _) = one_read(ex, None, None);
            kani::cover!(true, "COVER/resumed-after-error");
            finish(ex);
        } else {
            finish(ex);
        }
    }

    macro_rules! comm_harness {
        ($name:ident, $f:ident, $i:expr, $o:expr, $e:expr, $l:expr, $b:expr) => {
            #[kani::proof]
            fn $name() {
                mk::link_model();
                unsafe { $f($i, $o, $e, $l, $b) }
            }
        };
    }
    comm_harness!(h_comm_trace_ioe, trace_case, true, true, true, 2, 4);
    comm_harness!(h_comm_trace_io, trace_case, true, true, false, 1, 4);
    comm_harness!(h_comm_trace_oe, trace_case, false, true, true, 0, 4);
    comm_harness!(h_comm_trace_o, trace_case, false, true, false, 0, 4);
    comm_harness!(h_comm_trace_i, trace_case, true, false, false, 2, 4);
    // empty input on a piped stdin: stdin must still be closed (end-of-file for the child)
    comm_harness!(h_comm_trace_io0, trace_case, true, true, false, 0, 4);

    /// An input far above PIPE_BUF (9000 concrete bytes): every write chunk must stay
    /// within PIPE_BUF, or the write after POLLOUT can block.
    #[kani::proof]
    fn h_comm_bigwrite() {
        mk::link_model();
        unsafe {
            mk::reset();
            mk::init_std_fds();
            mc::ENABLED = true;
            mc::STEP_BUDGET = 3;
            mc::open_stream(IN, 3, 0);
            mc::open_stream(OUT, 4, 1);
            mc::S[IN].buffered = 0;
            mc::S[IN].total_in = 0;
            mc::S[IN].total_out = 0;
            mc::S[IN].peer_open = true;
            mc::IN_BASE = 0;
            mc::INPUT_LEN = 9000;
            mc::INPUT_CHECK = false;
            mc::XFER_MAX = 8192;
            let c = communicate(Some(File::from_raw_fd(3)), Some(File::from_raw_fd(4)), None, Some(vec![7u8; 9000]));
            let mut ex = Ex { c, use_in: true, use_out: true, use_err: false };
            let r = ex.c.read();
            kani::cover!(mc::S[IN].total_in > 0, "COVER/big-chunk-written");
            std::mem::forget(r);
            finish(ex);
        }
    }
    comm_harness!(h_comm_step_ioe, step_case, true, true, true, 2, 3);
    comm_harness!(h_comm_step_oe, step_case, false, true, true, 0, 3);
    /// quick variants: one limited read (3 system calls) / two limited reads sharing 3 system calls
    pub unsafe fn limit1_case(use_in: bool, use_out: bool, use_err: bool, input_len: usize, budget: u32) {
        let ex = setup(use_in, use_out, use_err, input_len, false, budget);
        let n1: usize = kani::any();
        kani::assume(n1 >= 1);
        let (ex, _) = one_read(ex, Some(n1), None);
        finish(ex);
    }
    comm_harness!(h_comm_limit_q1, limit1_case, false, true, true, 0, 3);
    comm_harness!(h_comm_limit_q2, limit_case, false, true, true, 0, 3);
    comm_harness!(h_comm_limit_oe, limit_case, false, true, true, 0, 4);
    comm_harness!(h_comm_limit_io, limit_case, true, true, false, 2, 4);

    macro_rules! time_harness {
        ($name:ident, $i:expr, $o:expr, $e:expr, $l:expr, $b:expr, $big:expr, $late:expr, $resume:expr) => {
            #[kani::proof]
            fn $name() {
                mk::link_model();
                unsafe { time_case($i, $o, $e, $l, $b, $big, $late, $resume) }
            }
        };
    }
    time_harness!(h_comm_time_q, false, true, false, 0, 2, false, false, false);
    time_harness!(h_comm_time_o, false, true, false, 0, 3, false, false, false);
    time_harness!(h_comm_time_oe, false, true, true, 0, 3, false, false, false);
    time_harness!(h_comm_time_io, true, true, false, 1, 3, false, false, false);
    time_harness!(h_comm_time_big, false, true, false, 0, 3, true, false, false);
    time_harness!(h_comm_time_resume, false, true, false, 0, 4, false, false, true);
    time_harness!(h_comm_time_resume_in, true, true, false, 2, 4, false, false, true);
    time_harness!(h_comm_late_kf, false, true, false, 0, 4, false, true, false);

    /// from_utf8_lossy(v) == String::from_utf8_lossy(&v) for every v of n bytes (n concrete:
    /// a symbolic length exhausts the SAT back end)
    pub fn utf8_case(n: usize) {
        let b: [u8; 4] = kani::any();
        let v = b[..n].to_vec();
        let want: String = String::from_utf8_lossy(&b[..n]).into_owned();
        let got = from_utf8_lossy(v);
        let gb = got.as_bytes();
        let wb = want.as_bytes();
        assert!(gb.len() == wb.len(), "C02/text-is-lossy-decoding: the text-returning variant differs in length from the lossy UTF-8 decoding of the bytes");
        let mut i = 0;
        while i < 12 {
            if i < gb.len() && i < wb.len() {
                assert!(gb[i] == wb[i], "C02/text-is-lossy-decoding: the text-returning variant differs from the lossy UTF-8 decoding of the bytes");
            }
            i += 1;
        }
        std::mem::forget((got, want));
    }

    #[kani::proof]
    fn h_utf8_lossy_2() {
        utf8_case(2)
    }
    #[kani::proof]
    fn h_utf8_lossy_3() {
        utf8_case(3)
    }
    #[kani::proof]
    fn h_utf8_lossy_4() {
        utf8_case(4)
    }
}
