// harnesses (h_comm)
