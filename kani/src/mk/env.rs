//! Environment: getenv over a tiny table set by the harness.
use super::*;
use libc::c_char;

pub const PATHVAL_MAX: usize = 8;
/// value of PATH (NUL-terminated) when PATH_SET
pub static mut PATH_SET: bool = false;
pub static mut PATH_VAL: [u8; PATHVAL_MAX + 1] = [0; PATHVAL_MAX + 1];
pub static mut GETENV_CALLS: u32 = 0;

#[no_mangle]
pub unsafe extern "C" fn getenv(name: *const c_char) -> *mut c_char {
    on_syscall();
    GETENV_CALLS += 1;
    let is_path = *name.add(0) as u8 == b'P'
        && *name.add(1) as u8 == b'A'
        && *name.add(2) as u8 == b'T'
        && *name.add(3) as u8 == b'H'
        && *name.add(4) as u8 == 0;
    if is_path && PATH_SET {
        return PATH_VAL.as_mut_ptr() as *mut c_char;
    }
    core::ptr::null_mut()
}

/// std's RandomState seeds itself with getrandom(); concrete zeros keep the
/// hash function a fixed function of the (symbolic) keys.
#[no_mangle]
pub unsafe extern "C" fn getrandom(buf: *mut libc::c_void, len: libc::size_t, _flags: libc::c_uint) -> libc::ssize_t {
    core::ptr::write_bytes(buf as *mut u8, 0, len);
    len as libc::ssize_t
}
