//! Virtual monotonic clock.  Kept as (sec, nsec) with carry: 64-bit division
//! on symbolic values is poison for the SAT back end.
use super::*;
use libc::c_int;

pub static mut NOW_S: i64 = 0;
pub static mut NOW_NS: i64 = 0;
pub static mut CLOCK_READS: u32 = 0;
pub static mut SLEEPS: u32 = 0;
/// hook called with the requested sleep (sec, nsec)
pub static mut AT_SLEEP: Option<unsafe fn(i64, i64)> = None;
/// the clock may advance by an arbitrary bounded amount on every read
pub static mut DRIFT_MAX_NS: i64 = 0;

pub unsafe fn reset() {
    NOW_S = 0;
    NOW_NS = 0;
    CLOCK_READS = 0;
    SLEEPS = 0;
    AT_SLEEP = None;
    DRIFT_MAX_NS = 0;
}

pub unsafe fn advance(s: i64, ns: i64) {
    NOW_S += s;
    NOW_NS += ns;
    if NOW_NS >= 1_000_000_000 {
        NOW_NS -= 1_000_000_000;
        NOW_S += 1;
    }
}

/// true iff now >= (s, ns)
pub unsafe fn now_ge(s: i64, ns: i64) -> bool {
    NOW_S > s || (NOW_S == s && NOW_NS >= ns)
}

#[no_mangle]
pub unsafe extern "C" fn clock_gettime(_clk: libc::clockid_t, ts: *mut libc::timespec) -> c_int {
    on_syscall();
    CLOCK_READS += 1;
    if DRIFT_MAX_NS > 0 {
        let d: i64 = kani::any();
        kani::assume(d >= 0 && d <= DRIFT_MAX_NS);
        advance(0, d);
    }
    (*ts).tv_sec = NOW_S;
    (*ts).tv_nsec = NOW_NS;
    0
}

unsafe fn do_sleep(req: *const libc::timespec) {
    SLEEPS += 1;
    let s = (*req).tv_sec;
    let ns = (*req).tv_nsec;
    if let Some(f) = AT_SLEEP {
        f(s, ns);
    }
    advance(s, ns);
}

#[no_mangle]
pub unsafe extern "C" fn nanosleep(req: *const libc::timespec, _rem: *mut libc::timespec) -> c_int {
    on_syscall();
    do_sleep(req);
    0
}

#[no_mangle]
pub unsafe extern "C" fn clock_nanosleep(_clk: libc::clockid_t, _flags: c_int, req: *const libc::timespec, _rem: *mut libc::timespec) -> c_int {
    on_syscall();
    do_sleep(req);
    0
}
