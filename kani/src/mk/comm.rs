//! Data pipes between parent and the scripted child, and poll().
use super::*;
use libc::{c_int, ssize_t};

pub unsafe fn on_close(_o: Obj) {}

pub unsafe fn pipe_read(_p: u8, _buf: *mut u8, _n: usize) -> ssize_t {
    vmodel!(false, "MODEL/pipe_read: data pipes not enabled in this harness");
    0
}

pub unsafe fn pipe_write(_p: u8, _buf: *const u8, n: usize) -> ssize_t {
    vmodel!(false, "MODEL/pipe_write: data pipes not enabled in this harness");
    n as ssize_t
}

#[no_mangle]
pub unsafe extern "C" fn poll(_fds: *mut libc::pollfd, _n: libc::nfds_t, _timeout: c_int) -> c_int {
    on_syscall();
    vmodel!(false, "MODEL/poll: not enabled in this harness");
    0
}
