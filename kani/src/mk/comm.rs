//! Data pipes between the parent (communicate loop) and an arbitrary child,
//! and poll().  Linux pipe semantics:
//!   read end : POLLIN iff buffered > 0; POLLHUP iff no writer left
//!   write end: POLLOUT iff free >= PIPE_BUF (and a reader exists); POLLERR iff no reader left
//!   write(n <= PIPE_BUF) is atomic: it blocks while free < n
//!   read returns 1..=min(n, buffered) bytes (short reads allowed), 0 at EOF, blocks when empty with a writer
//! The child is `child_step()`: at every parent system call it may read any
//! part of what is buffered on its stdin, write any amount that fits to its
//! stdout/stderr, and close any of its ends -- in any combination.
//!
//! Stream content: the byte at absolute position p of stream s is
//! g(s, p) = TAG[s] ^ (p as u8 * 37); TAG is symbolic per stream.

use super::*;
use libc::{c_int, ssize_t};

pub const IN: usize = 0;
pub const OUT: usize = 1;
pub const ERR: usize = 2;
pub const PIPE_BUF: usize = 4096;

#[derive(Clone, Copy)]
pub struct Stream {
    /// is this stream piped at all
    pub used: bool,
    /// pipe id (for FDT objects)
    pub pipe: u8,
    pub buffered: usize,
    pub cap: usize,
    /// the child still holds its end
    pub peer_open: bool,
    /// the parent still holds its end (updated by close())
    pub parent_open: bool,
    /// totals since the pipe was created
    pub total_in: usize,  // bytes put into the pipe
    pub total_out: usize, // bytes taken out of the pipe
    pub tag: u8,
}

pub const NOSTREAM: Stream = Stream {
    used: false,
    pipe: 0,
    buffered: 0,
    cap: 0,
    peer_open: false,
    parent_open: false,
    total_in: 0,
    total_out: 0,
    tag: 0,
};

pub static mut ENABLED: bool = false;
pub static mut S: [Stream; 3] = [NOSTREAM; 3];
/// max bytes per transfer (parent read/write results and child actions)
pub static mut XFER_MAX: usize = 3;
/// parent system calls (poll/read/write) so far and the budget after which the trace is cut
pub static mut STEPS: u32 = 0;
pub static mut STEP_BUDGET: u32 = 0;
/// harness's own copy of the input (for C02 checks at write)
pub const INMAX: usize = 8;
pub static mut INPUT: [u8; INMAX] = [0; INMAX];
pub static mut INPUT_LEN: usize = 0;
/// how many pipes connect parent and child right now: the parent holds its end
/// AND the child still holds the other one (a pipe whose child end is closed
/// cannot block the child any more, even if the parent has not closed its end yet)
pub unsafe fn parent_streams_open() -> usize {
    (S[IN].used && S[IN].parent_open && S[IN].peer_open) as usize
        + (S[OUT].used && S[OUT].parent_open && S[OUT].peer_open) as usize
        + (S[ERR].used && S[ERR].parent_open && S[ERR].peer_open) as usize
}

/// other live pipes besides stream `s`
pub unsafe fn other_live_pipes(s: usize) -> usize {
    let mut n = 0;
    let mut t = 0;
    while t < 3 {
        if t != s && S[t].used && S[t].parent_open && S[t].peer_open {
            n += 1;
        }
        t += 1;
    }
    n
}
/// content check of written bytes against INPUT (off for inputs longer than INMAX)
pub static mut INPUT_CHECK: bool = true;

pub fn g(tag: u8, pos: usize) -> u8 {
    tag ^ (pos as u8).wrapping_mul(37)
}

// ---- progress tracking (C01: no spinning)
pub static mut POLLS: u32 = 0;
pub static mut LAST_POLL_MOVED: usize = 0; // total bytes moved at the previous poll
pub static mut LAST_POLL_NFDS: usize = 0; // number of fds polled at the previous poll
pub static mut LAST_POLL_TIMED_OUT: bool = false;
pub static mut BLOCKING_READS: u32 = 0;
/// time model hooks for C04
pub static mut POLL_TIMEOUTS_SEEN: u32 = 0;
pub static mut LAST_POLL_TIMEOUT_MS: c_int = 0;
pub static mut POLL_RETURNED_ZERO: u32 = 0;
/// number of I/O system calls (read/write) issued while the clock was already past the deadline
pub static mut IO_AFTER_DEADLINE: u32 = 0;
pub static mut DEADLINE_SET: bool = false;
pub static mut DEADLINE_S: i64 = 0;
pub static mut DEADLINE_NS: i64 = 0;
/// child behaviour switches
pub static mut CHILD_MAY_ACT: bool = true;

pub unsafe fn moved() -> usize {
    S[IN].total_in + S[OUT].total_out + S[ERR].total_out
}

pub unsafe fn reset() {
    ENABLED = false;
    S = [NOSTREAM; 3];
    XFER_MAX = 3;
    STEPS = 0;
    STEP_BUDGET = 0;
    INPUT_LEN = 0;
    POLLS = 0;
    LAST_POLL_MOVED = 0;
    LAST_POLL_NFDS = 0;
    LAST_POLL_TIMED_OUT = false;
    BLOCKING_READS = 0;
    POLL_TIMEOUTS_SEEN = 0;
    POLL_RETURNED_ZERO = 0;
    IO_AFTER_DEADLINE = 0;
    DEADLINE_SET = false;
    CHILD_MAY_ACT = true;
    LIMIT_SET = false;
    INPUT_CHECK = true;
    CLOSE_BY_DROP = false;
    IN_BASE = 0;
}

/// Create the pipe of stream `s` seen from the parent: returns the parent's fd.
pub unsafe fn open_stream(s: usize, fd: usize, pipe: u8) {
    let cap: usize = kani::any();
    kani::assume(cap >= PIPE_BUF && cap <= (1 << 20));
    let buffered: usize = kani::any();
    kani::assume(buffered <= cap);
    let total_out: usize = kani::any();
    kani::assume(total_out <= (1 << 40));
    S[s] = Stream {
        used: true,
        pipe,
        buffered,
        cap,
        peer_open: kani::any(),
        parent_open: true,
        total_in: total_out + buffered,
        total_out,
        tag: kani::any(),
    };
    FDT[fd] = FdEnt {
        obj: if s == IN { Obj::PipeW(pipe) } else { Obj::PipeR(pipe) },
        cloexec: true,
    };
}

pub unsafe fn stream_of_pipe(p: u8) -> Option<usize> {
    if S[IN].used && S[IN].pipe == p {
        Some(IN)
    } else if S[OUT].used && S[OUT].pipe == p {
        Some(OUT)
    } else if S[ERR].used && S[ERR].pipe == p {
        Some(ERR)
    } else {
        None
    }
}

/// The child does anything it can, at a parent system-call boundary.
pub unsafe fn child_step() {
    if !CHILD_MAY_ACT {
        return;
    }
    // stdin: read part of what is buffered, maybe close
    if S[IN].used && S[IN].peer_open {
        let k: usize = kani::any();
        kani::assume(k <= S[IN].buffered && k <= XFER_MAX);
        S[IN].buffered -= k;
        S[IN].total_out += k;
        if kani::any() {
            S[IN].peer_open = false;
        }
    }
    let mut s = OUT;
    while s <= ERR {
        if S[s].used && S[s].peer_open {
            let k: usize = kani::any();
            kani::assume(k <= S[s].cap - S[s].buffered && k <= XFER_MAX);
            S[s].buffered += k;
            S[s].total_in += k;
            if kani::any() {
                S[s].peer_open = false;
            }
        }
        s += 1;
    }
}

unsafe fn count_step() {
    STEPS += 1;
    if STEP_BUDGET != 0 && STEPS > STEP_BUDGET {
        // bounded trace: everything after the budget is outside the claim
        kani::assume(false);
    }
}

unsafe fn past_deadline() -> bool {
    DEADLINE_SET && time::now_ge(DEADLINE_S, DEADLINE_NS)
}

pub unsafe fn on_close(o: Obj) {
    if !ENABLED {
        return;
    }
    let p = match o {
        Obj::PipeR(p) | Obj::PipeW(p) => p,
        _ => return,
    };
    if let Some(s) = stream_of_pipe(p) {
        S[s].parent_open = false;
        if s == IN {
            // C02: stdin is closed exactly when the whole input has been accepted
            vcheck!(C02, S[IN].total_in - IN_BASE == INPUT_LEN || CLOSE_BY_DROP, "C02/eof-after-last-byte: the child's stdin was closed before the whole input had been written");
        }
    }
}

/// total_in of stdin when the exchange started
pub static mut IN_BASE: usize = 0;
/// set by the harness while it drops the communicator itself
pub static mut CLOSE_BY_DROP: bool = false;

pub unsafe fn pipe_read(p: u8, buf: *mut u8, n: usize) -> ssize_t {
    vmodel!(ENABLED, "MODEL/pipe_read: data pipes not enabled in this harness");
    let s = match stream_of_pipe(p) {
        Some(s) => s,
        None => {
            vmodel!(false, "MODEL/pipe_read: unknown pipe");
            return 0;
        }
    };
    count_step();
    child_step();
    if past_deadline() {
        IO_AFTER_DEADLINE += 1;
    }
    if LIMIT_SET {
        let taken = (S[OUT].total_out - OUT_BASE) + (S[ERR].total_out - ERR_BASE);
        vcheck!(C03, taken <= LIMIT && n <= LIMIT - taken, "C03/never-consume-beyond-limit: a read asks the kernel for more bytes than the size limit still allows (the excess could not be returned by this call)");
    }
    if n == 0 {
        return 0;
    }
    if S[s].buffered == 0 {
        if !S[s].peer_open {
            return 0; // EOF
        }
        // a blocking read: legitimate only when the child cannot be waiting for the parent on another pipe
        BLOCKING_READS += 1;
        vcheck!(C01, other_live_pipes(s) == 0, "C01/no-blocking-read-with-other-streams: a read blocks on an empty pipe while the parent holds other pipes the child may be blocked on");
        // the child eventually writes or closes
        let k: usize = kani::any();
        kani::assume(k <= XFER_MAX && k <= S[s].cap);
        if k == 0 {
            S[s].peer_open = false;
            return 0;
        }
        S[s].buffered += k;
        S[s].total_in += k;
    }
    let k: usize = kani::any();
    kani::assume(k >= 1 && k <= n && k <= S[s].buffered && k <= XFER_MAX);
    let mut i = 0;
    while i < XFER_LOOP {
        if i < k {
            *buf.add(i) = g(S[s].tag, S[s].total_out + i);
        }
        i += 1;
    }
    S[s].buffered -= k;
    S[s].total_out += k;
    k as ssize_t
}

/// loop bound for byte copies (>= XFER_MAX)
pub const XFER_LOOP: usize = 4;
/// size limit of the current read() call and the stream offsets at its start
pub static mut LIMIT_SET: bool = false;
pub static mut LIMIT: usize = 0;
pub static mut OUT_BASE: usize = 0;
pub static mut ERR_BASE: usize = 0;

pub unsafe fn pipe_write(p: u8, buf: *const u8, n: usize) -> ssize_t {
    vmodel!(ENABLED, "MODEL/pipe_write: data pipes not enabled in this harness");
    let s = match stream_of_pipe(p) {
        Some(s) => s,
        None => {
            vmodel!(false, "MODEL/pipe_write: unknown pipe");
            return n as ssize_t;
        }
    };
    vmodel!(s == IN, "MODEL/pipe_write: parent writes to an output pipe");
    count_step();
    child_step();
    if past_deadline() {
        IO_AFTER_DEADLINE += 1;
    }
    if !S[IN].peer_open {
        // reader gone: EPIPE (SIGPIPE is ignored in a Rust parent)
        return fail(libc::EPIPE) as ssize_t;
    }
    vcheck!(C01, n <= PIPE_BUF, "C01/write-chunk-at-most-pipe-buf: a write chunk larger than PIPE_BUF can block although poll reported the pipe writable");
    let free = S[IN].cap - S[IN].buffered;
    if n <= PIPE_BUF {
        vcheck!(C01, free >= n || other_live_pipes(IN) == 0, "C01/write-never-blocks: a write was issued that blocks (pipe lacks room) while the child may be blocked on an output pipe the parent is not reading");
        if free < n {
            // blocks until the child reads: the child eventually does
            let r: usize = kani::any();
            kani::assume(r >= n - free && r <= S[IN].buffered);
            S[IN].buffered -= r;
            S[IN].total_out += r;
        }
    }
    if n == 0 {
        return 0;
    }
    // how much is accepted: everything (atomic) for n <= PIPE_BUF; short writes are
    // still allowed by POSIX for interrupted calls -- allow any k in 1..=n that fits
    let k: usize = kani::any();
    kani::assume(k >= 1 && k <= n && k <= S[IN].cap - S[IN].buffered);
    kani::assume(k <= XFER_MAX || k == n);
    // C02: the bytes handed over are the next input bytes, once, in order
    let base = S[IN].total_in - IN_BASE;
    let mut i = 0;
    while i < XFER_LOOP {
        if i < k && i < n {
            let want_ok = !INPUT_CHECK || (base + i < INPUT_LEN && *buf.add(i) == INPUT[(base + i) % INMAX]);
            vcheck!(C02, want_ok, "C02/input-once-in-order: a byte written to the child's stdin is not the next byte of the supplied input");
            vcheck!(C04, want_ok, "C04/resumes-exactly: across timed-out and resumed reads a byte written to the child's stdin is not the next undelivered byte of the input (re-sent or skipped)");
        }
        i += 1;
    }
    S[IN].buffered += k;
    S[IN].total_in += k;
    k as ssize_t
}

#[no_mangle]
pub unsafe extern "C" fn poll(fds: *mut libc::pollfd, nfds: libc::nfds_t, timeout: c_int) -> c_int {
    on_syscall();
    vmodel!(ENABLED, "MODEL/poll: not enabled in this harness");
    count_step();
    child_step();
    POLLS += 1;
    LAST_POLL_TIMEOUT_MS = timeout;
    // ---- C01 progress: since the previous poll, bytes moved or a stream was retired,
    // unless the previous poll timed out
    let mut polled = 0;
    let mut i = 0;
    while i < 3 {
        if (i as libc::nfds_t) < nfds && (*fds.add(i)).fd >= 0 {
            polled += 1;
        }
        i += 1;
    }
    if POLLS > 1 && !LAST_POLL_TIMED_OUT {
        vcheck!(C01, moved() != LAST_POLL_MOVED || polled < LAST_POLL_NFDS, "C01/progress-between-polls: two consecutive polls with no byte moved and no stream retired in between (the loop spins, e.g. on a stream at end-of-file)");
    }
    vcheck!(C01, polled > 0, "C01/poll-something: poll() called with no stream to wait for (would block forever)");
    LAST_POLL_MOVED = moved();
    LAST_POLL_NFDS = polled;
    // C04: with a time limit, poll is never asked to wait past the deadline (+1 ms rounding)
    if DEADLINE_SET {
        vcheck!(C04, timeout >= 0, "C04/poll-bounded-by-deadline: poll() called without timeout although a time limit is set");
        if timeout > 0 {
            // now + (timeout - 1) ms < deadline  <=>  waiting `timeout` ms ends before deadline + 1 ms
            let ms = (timeout - 1) as i64;
            let s: i64 = kani::any();
            let rem: i64 = kani::any();
            kani::assume(s >= 0 && rem >= 0 && rem < 1000 && s <= 2_147_484 && s * 1000 + rem == ms);
            let mut es = time::NOW_S + s;
            let mut en = time::NOW_NS + rem * 1_000_000;
            if en >= 1_000_000_000 {
                en -= 1_000_000_000;
                es += 1;
            }
            let before = es < DEADLINE_S || (es == DEADLINE_S && en < DEADLINE_NS);
            vcheck!(C04, before, "C04/poll-bounded-by-deadline: poll() is asked to wait more than 1 ms past the deadline");
        }
    } else {
        vcheck!(C04, timeout == -1, "C04/no-timeout-without-limit: poll() called with a timeout although no time limit was set");
    }
    let mut ready = 0;
    let mut pass = 0;
    while pass < 2 {
        ready = 0;
        let mut i = 0;
        while i < 3 {
            if (i as libc::nfds_t) < nfds {
                let pf = &mut *fds.add(i);
                pf.revents = 0;
                if pf.fd >= 0 && valid_fd(pf.fd) {
                    let (s, is_w) = match FDT[pf.fd as usize].obj {
                        Obj::PipeW(p) => (stream_of_pipe(p), true),
                        Obj::PipeR(p) => (stream_of_pipe(p), false),
                        _ => (None, false),
                    };
                    if let Some(s) = s {
                        let mut re: i16 = 0;
                        if is_w {
                            if !S[s].peer_open {
                                re |= libc::POLLERR;
                            } else if S[s].cap - S[s].buffered >= PIPE_BUF && (pf.events & libc::POLLOUT) != 0 {
                                re |= libc::POLLOUT;
                            }
                        } else {
                            if S[s].buffered > 0 && (pf.events & libc::POLLIN) != 0 {
                                re |= libc::POLLIN;
                            }
                            if !S[s].peer_open {
                                re |= libc::POLLHUP;
                            }
                        }
                        pf.revents = re;
                        if re != 0 {
                            ready += 1;
                        }
                    } else {
                        vmodel!(false, "MODEL/poll: descriptor that is not a stream pipe");
                    }
                }
            }
            i += 1;
        }
        if ready > 0 || pass == 1 {
            break;
        }
        // nothing ready: the call blocks
        if timeout == 0 {
            break;
        }
        if timeout > 0 {
            // either the child makes something ready before the timeout, or the timeout expires
            // elapsed time as (s, rem ms) with s*1000 + rem = ms: no division of symbolic values
            let ms: i64 = kani::any();
            let s: i64 = kani::any();
            let rem: i64 = kani::any();
            kani::assume(s >= 0 && rem >= 0 && rem < 1000 && s <= 2_147_484 && s * 1000 + rem == ms);
            if kani::any() {
                // the timeout expires: exactly timeout ms pass (the model clock does not oversleep)
                kani::assume(ms == timeout as i64);
                time::advance(s, rem * 1_000_000);
                break;
            }
            kani::assume(ms <= timeout as i64);
            time::advance(s, rem * 1_000_000);
        }
        // the child does something that makes a stream ready
        force_child_progress();
        pass += 1;
    }
    LAST_POLL_TIMED_OUT = ready == 0;
    if ready == 0 {
        POLL_RETURNED_ZERO += 1;
    }
    ready
}

/// Blocked in poll with nothing ready: the child eventually makes one polled stream ready.
pub unsafe fn force_child_progress() {
    let which: u8 = kani::any();
    kani::assume(which < 3);
    let s = which as usize;
    kani::assume(S[s].used && S[s].parent_open && S[s].peer_open);
    if s == IN {
        // drain enough for POLLOUT, or close
        if kani::any() {
            S[IN].peer_open = false;
        } else {
            let k: usize = kani::any();
            kani::assume(k <= S[IN].buffered && S[IN].cap - (S[IN].buffered - k) >= PIPE_BUF);
            S[IN].buffered -= k;
            S[IN].total_out += k;
        }
    } else if kani::any() {
        S[s].peer_open = false;
    } else {
        let k: usize = kani::any();
        kani::assume(k >= 1 && k <= XFER_MAX && k <= S[s].cap - S[s].buffered);
        S[s].buffered += k;
        S[s].total_in += k;
    }
}
