//! Model kernel ("mk"): the libc symbols that /repo's code (and `std` on its
//! behalf) calls, defined as `#[no_mangle] extern "C"` functions and linked in
//! place of libc by `cargo kani -Z c-ffi`.  Every call returns *any* result its
//! POSIX/Linux contract allows (kani::any + assume), keeps the kernel state the
//! properties talk about, and carries the property assertions at the points the
//! properties name (exec, blocking calls, return).
//!
//! Everything is `static mut`: symbolic execution is single-threaded.
//! Assertions are tagged `Cnn/<tag>: text`; only the assertions of the property
//! in FOCUS are active in a harness, so properties do not mask each other.

use libc::{c_char, c_int, c_void, pid_t, size_t, ssize_t};

#[derive(Clone, Copy, PartialEq, Eq)]
pub enum P {
    None,
    C01,
    C02,
    C03,
    C04,
    C05,
    C06,
    C07,
    C08,
    C09,
    C10,
    C11,
    C12,
    C13,
    C14,
    C15,
    C16,
    C17,
    C18,
    C19,
    C20,
}

pub static mut FOCUS: P = P::None;

#[inline(always)]
pub fn focus(p: P) -> bool {
    unsafe { FOCUS == p }
}

/// Property assertion.  Every property's assertions are compiled into every
/// harness; the driver decides only those tagged with the property it was asked
/// about (cbmc --property).  Kani's assert is check-then-assume, so a failing
/// assertion of one property could hide a later failure of another on the same
/// path; the nondeterministic guard removes that masking: the instance where the
/// guard is false skips the assertion (and its assumption) altogether.
#[macro_export]
macro_rules! vcheck {
    ($p:ident, $cond:expr, $msg:literal) => {
        if kani::any::<bool>() {
            assert!($cond, $msg);
        }
    };
}

/// Model self-consistency assertion (always active).  A failure means the
/// harness or the model is wrong, never the code: the driver reports exit 2.
#[macro_export]
macro_rules! vmodel {
    ($cond:expr, $msg:literal) => {
        assert!($cond, $msg);
    };
}

// ---------------------------------------------------------------- errno ----

pub static mut ERRNO: c_int = 0;

#[no_mangle]
pub unsafe extern "C" fn __errno_location() -> *mut c_int {
    &mut ERRNO
}

pub unsafe fn fail(e: c_int) -> c_int {
    ERRNO = e;
    -1
}

/// An arbitrary errno value in 1..=4095 (what io::Error::from_raw_os_error and
/// the 4-byte status channel can carry).
pub fn any_errno() -> c_int {
    let e: c_int = kani::any();
    kani::assume(e >= 1 && e <= 4095);
    e
}

// ----------------------------------------------------- descriptor table ----

pub const NFD: usize = 16;
pub const NPIPE: usize = 10;

/// Identity of the open file description behind a descriptor.
#[derive(Clone, Copy, PartialEq, Eq)]
pub enum Obj {
    Closed,
    /// the parent's own standard stream i as it was before the call
    Std(u8),
    /// read / write end of the p-th pipe created (creation order)
    PipeR(u8),
    PipeW(u8),
    /// k-th file opened by the harness (distinct k = distinct open file description)
    File(u8),
}

#[derive(Clone, Copy)]
pub struct FdEnt {
    pub obj: Obj,
    pub cloexec: bool,
}

pub const CLOSED: FdEnt = FdEnt {
    obj: Obj::Closed,
    cloexec: false,
};

pub static mut FDT: [FdEnt; NFD] = [CLOSED; NFD];
/// number of pipes created so far
pub static mut NPIPES: u8 = 0;
/// total successful close() calls and double-close detector
pub static mut CLOSES: u32 = 0;

/// Fault injection: when > 0, the FAULT_AT-th (1-based) faultable call fails
/// with FAULT_ERRNO.  Faultable: pipe, fcntl (in the Rust-level stub), fork.
pub static mut FAULT_AT: u32 = 0;
pub static mut FAULT_ERRNO: c_int = 0;
pub static mut FAULTABLE_CALLS: u32 = 0;
pub static mut FAULT_FIRED: bool = false;
/// which call kind fired: 1 pipe, 2 fcntl, 3 fork
pub static mut FAULT_KIND: u8 = 0;

pub unsafe fn fault_here(kind: u8) -> bool {
    FAULTABLE_CALLS += 1;
    if FAULT_AT != 0 && FAULTABLE_CALLS == FAULT_AT {
        FAULT_FIRED = true;
        FAULT_KIND = kind;
        ERRNO = FAULT_ERRNO;
        return true;
    }
    false
}

pub unsafe fn init_std_fds() {
    FDT[0] = FdEnt {
        obj: Obj::Std(0),
        cloexec: false,
    };
    FDT[1] = FdEnt {
        obj: Obj::Std(1),
        cloexec: false,
    };
    FDT[2] = FdEnt {
        obj: Obj::Std(2),
        cloexec: false,
    };
}

pub unsafe fn valid_fd(fd: c_int) -> bool {
    fd >= 0 && (fd as usize) < NFD && FDT[fd as usize].obj != Obj::Closed
}

pub unsafe fn lowest_free(from: usize) -> Option<usize> {
    let mut i = from;
    while i < NFD {
        if FDT[i].obj == Obj::Closed {
            return Some(i);
        }
        i += 1;
    }
    None
}

/// Harness helper: open descriptor `fd` on a fresh "file" object k.
pub unsafe fn open_file_at(fd: usize, k: u8, cloexec: bool) {
    vmodel!(FDT[fd].obj == Obj::Closed, "MODEL/open_file_at: fd in use");
    FDT[fd] = FdEnt {
        obj: Obj::File(k),
        cloexec,
    };
}

pub unsafe fn count_obj(o: Obj) -> usize {
    let mut n = 0;
    let mut i = 0;
    while i < NFD {
        if FDT[i].obj == o {
            n += 1;
        }
        i += 1;
    }
    n
}

#[no_mangle]
pub unsafe extern "C" fn pipe(fds: *mut c_int) -> c_int {
    on_syscall();
    if fault_here(1) {
        return -1;
    }
    let r = match lowest_free(0) {
        Some(r) => r,
        None => return fail(libc::EMFILE),
    };
    let w = match lowest_free(r + 1) {
        Some(w) => w,
        None => return fail(libc::EMFILE),
    };
    vmodel!((NPIPES as usize) < NPIPE, "MODEL/pipe: pipe table exhausted (raise NPIPE)");
    let p = NPIPES;
    NPIPES += 1;
    // pipelines: each stage's spawn starts with its launch-status pipe
    if proc_::AUTO_STATUS {
        if proc_::SKIP_PIPES > 0 {
            proc_::SKIP_PIPES -= 1;
        } else if proc_::STATUS_PIPE.is_none() {
            proc_::STATUS_PIPE = Some(p);
        }
    }
    FDT[r] = FdEnt {
        obj: Obj::PipeR(p),
        cloexec: false,
    };
    FDT[w] = FdEnt {
        obj: Obj::PipeW(p),
        cloexec: false,
    };
    *fds = r as c_int;
    *fds.add(1) = w as c_int;
    0
}

#[no_mangle]
pub unsafe extern "C" fn close(fd: c_int) -> c_int {
    on_syscall();
    if !valid_fd(fd) {
        vmodel!(false, "MODEL/close: close of a descriptor that is not open (double close)");
        return fail(libc::EBADF);
    }
    let o = FDT[fd as usize].obj;
    FDT[fd as usize] = CLOSED;
    CLOSES += 1;
    crate::mk::comm::on_close(o);
    0
}

#[no_mangle]
pub unsafe extern "C" fn dup2(old: c_int, new: c_int) -> c_int {
    on_syscall();
    proc_::child_step_called(proc_::Step::Dup2);
    if proc_::child_step_fails(proc_::Step::Dup2) {
        return -1;
    }
    if !valid_fd(old) || new < 0 || new as usize >= NFD {
        return proc_::child_kernel_refusal(libc::EBADF);
    }
    if old != new {
        FDT[new as usize] = FdEnt {
            obj: FDT[old as usize].obj,
            cloexec: false,
        };
    }
    new
}

/// Rust-level model of the crate's `posix::fcntl` wrapper (C-variadic FFI
/// cannot be defined; harnesses stub the 8-line wrapper with this).
pub fn fcntl_model(fd: i32, cmd: i32, arg1: Option<i32>) -> std::io::Result<i32> {
    unsafe {
        on_syscall();
        if fault_here(2) {
            return Err(std::io::Error::from_raw_os_error(ERRNO));
        }
        if !valid_fd(fd) {
            return Err(std::io::Error::from_raw_os_error(libc::EBADF));
        }
        if cmd == libc::F_GETFD {
            Ok(if FDT[fd as usize].cloexec {
                libc::FD_CLOEXEC
            } else {
                0
            })
        } else if cmd == libc::F_SETFD {
            match arg1 {
                Some(a) => {
                    FDT[fd as usize].cloexec = a & libc::FD_CLOEXEC != 0;
                    Ok(0)
                }
                None => Err(std::io::Error::from_raw_os_error(libc::EINVAL)),
            }
        } else {
            vmodel!(false, "MODEL/fcntl: command not modelled");
            Err(std::io::Error::from_raw_os_error(libc::EINVAL))
        }
    }
}

#[no_mangle]
pub unsafe extern "C" fn read(fd: c_int, buf: *mut c_void, n: size_t) -> ssize_t {
    on_syscall();
    if !valid_fd(fd) {
        return fail(libc::EBADF) as ssize_t;
    }
    match FDT[fd as usize].obj {
        Obj::PipeR(p) => {
            if proc_::STATUS_PIPE == Some(p) {
                proc_::status_pipe_read(buf as *mut u8, n)
            } else {
                comm::pipe_read(p, buf as *mut u8, n)
            }
        }
        _ => {
            vmodel!(false, "MODEL/read: read from an object that is not modelled");
            0
        }
    }
}

#[no_mangle]
pub unsafe extern "C" fn write(fd: c_int, buf: *const c_void, n: size_t) -> ssize_t {
    on_syscall();
    if !valid_fd(fd) {
        return fail(libc::EBADF) as ssize_t;
    }
    match FDT[fd as usize].obj {
        Obj::PipeW(p) => {
            if proc_::STATUS_PIPE == Some(p) {
                proc_::status_pipe_write(buf as *const u8, n)
            } else {
                comm::pipe_write(p, buf as *const u8, n)
            }
        }
        _ => {
            vmodel!(false, "MODEL/write: write to an object that is not modelled");
            n as ssize_t
        }
    }
}

/// Called at the entry of every model call: per-boundary invariants.
pub unsafe fn on_syscall() {
    proc_::boundary_invariants();
}

/// Reset the whole model state (harnesses that run several independent cases).
pub unsafe fn reset() {
    FOCUS = P::None;
    ERRNO = 0;
    FDT = [CLOSED; NFD];
    NPIPES = 0;
    CLOSES = 0;
    FAULT_AT = 0;
    FAULT_ERRNO = 0;
    FAULTABLE_CALLS = 0;
    FAULT_FIRED = false;
    FAULT_KIND = 0;
    proc_::reset();
    comm::reset();
    time::reset();
    sig::MASK = 0;
    sig::SIGPIPE_IGNORED = true;
}

pub mod comm;
pub mod env;
#[path = "proc.rs"]
pub mod proc_;
pub mod sig;
pub mod time;

/// Take the address of every model symbol so that the Kani linker keeps our
/// definitions instead of CBMC's built-in library versions.
pub fn link_model() {
    let k = [
        __errno_location as *const () as usize,
        pipe as *const () as usize,
        close as *const () as usize,
        dup2 as *const () as usize,
        read as *const () as usize,
        write as *const () as usize,
        proc_::fork as *const () as usize,
        proc_::execv as *const () as usize,
        proc_::execve as *const () as usize,
        proc_::_exit as *const () as usize,
        proc_::waitpid as *const () as usize,
        proc_::kill as *const () as usize,
        proc_::killpg as *const () as usize,
        proc_::chdir as *const () as usize,
        proc_::setuid as *const () as usize,
        proc_::setgid as *const () as usize,
        proc_::setpgid as *const () as usize,
        sig::sigemptyset as *const () as usize,
        sig::pthread_sigmask as *const () as usize,
        sig::signal as *const () as usize,
        env::getenv as *const () as usize,
        env::getrandom as *const () as usize,
        time::clock_gettime as *const () as usize,
        time::nanosleep as *const () as usize,
        time::clock_nanosleep as *const () as usize,
        comm::poll as *const () as usize,
    ];
    assert!(k[0] != 0);
}
