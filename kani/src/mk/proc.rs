//! Process side of the model kernel: fork / exec / _exit / waitpid / kill,
//! credentials, cwd, the launch-status pipe, the child table.

use super::*;
use libc::{c_char, c_int, c_void, pid_t, size_t, ssize_t};

// ------------------------------------------------------------- fork -------

/// Number of fork() calls made so far.
pub static mut FORKS: u32 = 0;
pub static mut CUT_AT_FORK: bool = false;
pub static mut CUT_AT: u8 = 0;
/// The harness decides which fork call (1-based) continues as the child;
/// 0 = none (pure parent role).
pub static mut CHILD_AT_FORK: u32 = 0;
/// True once execution continues inside a forked child.
pub static mut IN_CHILD: bool = false;
/// Descriptor table as it was at the moment of the fork that made us the child.
pub static mut FDT_AT_FORK: [FdEnt; NFD] = [CLOSED; NFD];
/// The pipe that serves as launch-status channel for the current spawn
/// (the first pipe created after `begin_spawn`).
pub static mut STATUS_PIPE: Option<u8> = None;
/// Pipelines: the status pipe of each stage is the first pipe created after the
/// previous fork (after skipping SKIP_PIPES pipes created by the terminator itself).
pub static mut AUTO_STATUS: bool = false;
pub static mut SKIP_PIPES: u8 = 0;
/// Index of the first pipe created by the spawn under analysis.
pub static mut SPAWN_FIRST_PIPE: u8 = 0;

pub const NKID: usize = 3;

#[derive(Clone, Copy, PartialEq, Eq)]
pub enum KidSt {
    Unused,
    Running,
    Zombie,
    Reaped,
}

#[derive(Clone, Copy)]
pub struct Kid {
    pub pid: pid_t,
    pub st: KidSt,
    /// the true wait-status word of this child (decided when it terminates)
    pub status: c_int,
    pub reaped_by_us: bool,
    /// the pipe ends this child inherited (bit p = read end of pipe p, bit 8+p = write end)
    pub holds: u16,
    /// status pipe of the spawn that created it
    pub status_pipe: u8,
}

pub const NOKID: Kid = Kid {
    pid: 0,
    st: KidSt::Unused,
    status: 0,
    reaped_by_us: false,
    holds: 0,
    status_pipe: 0,
};

pub static mut KIDS: [Kid; NKID] = [NOKID; NKID];
pub static mut LAST_FORKED: usize = 0;
pub static mut NKIDS: usize = 0;

/// What the child of the k-th fork reports on its launch-status pipe:
/// 0 = exec succeeded (EOF), otherwise errno sent as 4 bytes.
pub static mut KID_LAUNCH_ERRNO: [c_int; NKID] = [0; NKID];
/// true wait-status word of the k-th forked child
pub static mut KID_STATUS: [c_int; NKID] = [0; NKID];

/// World behaviour switches (set by harnesses).
pub static mut KIDS_MAY_EXIT: bool = false; // running children may terminate at any syscall
pub static mut FOREIGN_REAPER: bool = false; // zombies may be reaped by someone else at any syscall
pub static mut WAITPID_CALLS: u32 = 0;
/// a waitpid of this Popen was answered ECHILD (child reaped by someone else)
pub static mut ECHILD_SEEN: bool = false;
/// fault injection: a blocking waitpid() on a running child may be interrupted by a
/// signal handler (EINTR); armed by a harness around the call under test only
pub static mut WAIT_EINTR_ARMED: bool = false;
pub static mut EINTR_INJECTED: bool = false;
pub static mut WAITPID_BLOCKING_CALLS: u32 = 0;
pub static mut KILL_CALLS: u32 = 0;
pub static mut LAST_KILL_PID: pid_t = 0;
pub static mut LAST_KILL_SIG: c_int = 0;
pub static mut KILL_RESULT_ERRNO: c_int = 0; // 0 = success, else kill() fails with it

pub unsafe fn reset() {
    FORKS = 0;
    CHILD_AT_FORK = 0;
    IN_CHILD = false;
    STATUS_PIPE = None;
    AUTO_STATUS = false;
    SKIP_PIPES = 0;
    LAST_FORKED = 0;
    SPAWN_FIRST_PIPE = 0;
    KIDS = [NOKID; NKID];
    NKIDS = 0;
    KID_LAUNCH_ERRNO = [0; NKID];
    KID_STATUS = [0; NKID];
    KIDS_MAY_EXIT = false;
    FOREIGN_REAPER = false;
    WAITPID_CALLS = 0;
    ECHILD_SEEN = false;
    WAIT_EINTR_ARMED = false;
    EINTR_INJECTED = false;
    WAITPID_BLOCKING_CALLS = 0;
    KILL_CALLS = 0;
    KILL_RESULT_ERRNO = 0;
    CHILD_STEPS = 0;
    CHILD_FAIL_AT = 0;
    CHILD_FAILED = false;
    KERNEL_REFUSED = false;
    EXPECT_STD_REFUSAL = false;
    CHILD_FAILED_STEP = 0;
    STEPS_SEEN = 0;
    RUID = 0;
    EUID = 0;
    SUID = 0;
    RGID = 0;
    EGID = 0;
    SGID = 0;
    PGID_IS_SELF = false;
    CWD_SET = false;
    CWD_LEN = 0;
    EXEC_ATTEMPTS = 0;
    EXEC_VERDICT = [0; NEXEC];
    EXEC_STARTED = false;
    EXEC_FAILED_ONCE = false;
    EXPECT_REPORT = 0;
    EXP_ARGV_SET = false;
    EXP_PATH_SET = false;
    EXP_ENV_MODE = 0;
    EXP_CWD_MODE = 0;
    EXP_ID_SET = false;
    EXPECT_FD_SET = false;
    STATUS_WRITTEN_LEN = 0;
    EXITED_WITH = -1;
    AT_EXEC = None;
    AT_EXIT = None;
    AT_BLOCKING_WAIT = None;
    VK_ALLOCS = 0;
    ALLOC_AT_FORK = 0;
    BOUNDARY_CLOEXEC = false;
    CUT_AT = 0;
    CUT_AT_FORK = false;
}

pub unsafe fn kid_index(pid: pid_t) -> Option<usize> {
    let mut i = 0;
    while i < NKID {
        if KIDS[i].st != KidSt::Unused && KIDS[i].pid == pid {
            return Some(i);
        }
        i += 1;
    }
    None
}

pub unsafe fn mask_of_open_pipe_ends() -> u16 {
    let mut m: u16 = 0;
    let mut i = 0;
    while i < NFD {
        match FDT[i].obj {
            Obj::PipeR(p) => m |= 1 << p,
            Obj::PipeW(p) => m |= 1 << (8 + p),
            _ => (),
        }
        i += 1;
    }
    m
}

/// Mark the beginning of the spawn under analysis: pipes created from now on
/// belong to it; the first one is its launch-status pipe.
pub unsafe fn begin_spawn() {
    SPAWN_FIRST_PIPE = NPIPES;
    STATUS_PIPE = Some(NPIPES);
}

#[no_mangle]
pub unsafe extern "C" fn fork() -> pid_t {
    on_syscall();
    if fault_here(3) {
        return -1;
    }
    FORKS += 1;
    if CUT_AT_FORK { kani::assume(false); }
    if CHILD_AT_FORK == FORKS {
        IN_CHILD = true;
        FDT_AT_FORK = FDT;
        ALLOC_AT_FORK = VK_ALLOCS;
        kani::cover!(true, "COVER/fork-child-role");
        return 0;
    }
    vmodel!(NKIDS < NKID, "MODEL/fork: child table exhausted (raise NKID)");
    let this_status = STATUS_PIPE;
    let pid = 100 + NKIDS as pid_t;
    // the true wait-status word is chosen by the harness (default: exit(0));
    // a symbolic word makes ExitStatus' discriminant -- and through the niche
    // ChildState's -- symbolic, and symex then cannot prune the wait loop
    let status: c_int = KID_STATUS[NKIDS];
    KIDS[NKIDS] = Kid {
        pid,
        st: KidSt::Running,
        status,
        reaped_by_us: false,
        holds: mask_of_open_pipe_ends(),
        status_pipe: match this_status {
            Some(p) => p,
            None => 0xff,
        },
    };
    NKIDS += 1;
    LAST_FORKED = NKIDS - 1;
    pid
}

// ------------------------------------------------- child-side steps -------

#[derive(Clone, Copy, PartialEq, Eq)]
pub enum Step {
    Chdir = 1,
    Dup2 = 2,
    SigEmpty = 3,
    SigMask = 4,
    Signal = 5,
    Setuid = 6,
    Setgid = 7,
    Setpgid = 8,
    Exec = 9,
}

/// Child-side steps executed so far (in child role).
pub static mut CHILD_STEPS: u32 = 0;
/// 0 = no injected child-step failure; k = the k-th child-side step fails.
pub static mut CHILD_FAIL_AT: u32 = 0;
pub static mut CHILD_FAIL_ERRNO: c_int = 0;
pub static mut CHILD_FAILED: bool = false;
pub static mut CHILD_FAILED_STEP: u8 = 0;
/// steps seen, as a bit set of Step
pub static mut STEPS_SEEN: u16 = 0;
/// order witnesses
pub static mut SETUID_BEFORE_SETGID: bool = false;

pub unsafe fn child_step_called(s: Step) {
    if !IN_CHILD {
        return;
    }
    if CUT_AT != 0 && CUT_AT == s as u8 { kani::assume(false); }
    // C07: after a failed child-side step nothing else may run
    vcheck!(C07, !CHILD_FAILED, "C07/no-step-after-failure: a child-side step ran after an earlier step had failed");
    // C17: no allocation between fork and any child-side call
    vcheck!(C17, VK_ALLOCS == ALLOC_AT_FORK, "C17/no-alloc-before-step: heap allocation between fork and a child-side call");
    STEPS_SEEN |= 1 << (s as u16);
}

pub unsafe fn child_step_fails(s: Step) -> bool {
    if !IN_CHILD {
        return false;
    }
    // C07 quantifies over chdir, dup2, setuid, setgid, setpgid and exec;
    // sigemptyset/pthread_sigmask/signal with valid arguments cannot fail and
    // are not injected.
    match s {
        Step::SigEmpty | Step::SigMask | Step::Signal => return false,
        _ => (),
    }
    CHILD_STEPS += 1;
    if CHILD_FAIL_AT != 0 && CHILD_STEPS == CHILD_FAIL_AT {
        CHILD_FAILED = true;
        CHILD_FAILED_STEP = s as u8;
        ERRNO = CHILD_FAIL_ERRNO;
        EXPECT_REPORT = CHILD_FAIL_ERRNO;
        return true;
    }
    false
}

/// The harness expects std itself to refuse a child-side step before any system
/// call (e.g. a working directory containing NUL): the child must then report -1.
pub static mut EXPECT_STD_REFUSAL: bool = false;
/// The model kernel itself refuses a child-side step (e.g. EPERM): a real failure of the launch.
pub static mut KERNEL_REFUSED: bool = false;
pub unsafe fn child_kernel_refusal(e: c_int) -> c_int {
    if IN_CHILD {
        CHILD_FAILED = true;
        KERNEL_REFUSED = true;
        EXPECT_REPORT = e;
    }
    fail(e)
}

// credentials
pub static mut RUID: u32 = 0;
pub static mut EUID: u32 = 0;
pub static mut SUID: u32 = 0;
pub static mut RGID: u32 = 0;
pub static mut EGID: u32 = 0;
pub static mut SGID: u32 = 0;
pub static mut PGID_IS_SELF: bool = false;

#[no_mangle]
pub unsafe extern "C" fn setuid(uid: libc::uid_t) -> c_int {
    on_syscall();
    child_step_called(Step::Setuid);
    if child_step_fails(Step::Setuid) {
        return -1;
    }
    if EUID == 0 {
        RUID = uid;
        EUID = uid;
        SUID = uid;
        0
    } else if uid == RUID || uid == SUID {
        EUID = uid;
        0
    } else {
        child_kernel_refusal(libc::EPERM)
    }
}

#[no_mangle]
pub unsafe extern "C" fn setgid(gid: libc::gid_t) -> c_int {
    on_syscall();
    child_step_called(Step::Setgid);
    if child_step_fails(Step::Setgid) {
        return -1;
    }
    if EUID == 0 {
        RGID = gid;
        EGID = gid;
        SGID = gid;
        0
    } else if gid == RGID || gid == SGID {
        EGID = gid;
        0
    } else {
        child_kernel_refusal(libc::EPERM)
    }
}

#[no_mangle]
pub unsafe extern "C" fn setpgid(pid: pid_t, pgid: pid_t) -> c_int {
    on_syscall();
    if !IN_CHILD && NKIDS >= 1 && pid == KIDS[NKIDS - 1].pid && pgid == pid {
        // the parent moves its freshly forked child into its own group: POSIX makes this
        // fail with EACCES once the child has called exec -- and the child may already have
        if KID_LAUNCH_ERRNO[NKIDS - 1] == 0 && kani::any() {
            return fail(libc::EACCES);
        }
        return 0;
    }
    child_step_called(Step::Setpgid);
    if child_step_fails(Step::Setpgid) {
        return -1;
    }
    if pid == 0 && pgid == 0 {
        PGID_IS_SELF = true;
        0
    } else {
        vmodel!(false, "MODEL/setpgid: only setpgid(0,0) is modelled");
        fail(libc::EINVAL)
    }
}

pub const CWDMAX: usize = 8;
pub static mut CWD_SET: bool = false;
pub static mut CWD: [u8; CWDMAX] = [0; CWDMAX];
pub static mut CWD_LEN: usize = 0;

#[no_mangle]
pub unsafe extern "C" fn chdir(path: *const c_char) -> c_int {
    on_syscall();
    child_step_called(Step::Chdir);
    if child_step_fails(Step::Chdir) {
        return -1;
    }
    let mut i = 0;
    while i < CWDMAX {
        let b = *path.add(i) as u8;
        if b == 0 {
            break;
        }
        CWD[i] = b;
        i += 1;
    }
    CWD_LEN = i;
    CWD_SET = true;
    0
}

// ------------------------------------------------------------- exec -------

pub const NEXEC: usize = 4;
pub const PATHMAX: usize = 12;
/// verdict of the k-th exec attempt: 0 = the program starts, else errno
pub static mut EXEC_VERDICT: [c_int; NEXEC] = [0; NEXEC];
pub static mut EXEC_ATTEMPTS: usize = 0;
/// candidate paths as passed to exec (NUL-terminated, truncated to PATHMAX)
pub static mut EXEC_PATH: [[u8; PATHMAX]; NEXEC] = [[0; PATHMAX]; NEXEC];
pub static mut EXEC_PATH_LEN: [usize; NEXEC] = [0; NEXEC];
pub static mut EXEC_PATH_PTR: [usize; NEXEC] = [0; NEXEC];
pub static mut EXEC_STARTED: bool = false;
pub static mut EXEC_FAILED_ONCE: bool = false;
/// whether the started exec call was execve (explicit environment)
pub static mut EXEC_WITH_ENV: bool = false;
pub static mut EXEC_ARGV: *const *const c_char = core::ptr::null();
pub static mut EXEC_ENVP: *const *const c_char = core::ptr::null();

/// hook: harness-specific exec-time assertions (set by the harness module)
pub static mut AT_EXEC: Option<unsafe fn()> = None;

unsafe fn exec_common(path: *const c_char, argv: *const *const c_char, envp: *const *const c_char, with_env: bool) -> c_int {
    on_syscall();
    child_step_called(Step::Exec);
    vmodel!(IN_CHILD, "MODEL/exec: exec called outside the forked child");
    vmodel!(EXEC_ATTEMPTS < NEXEC, "MODEL/exec: too many exec attempts (raise NEXEC)");
    let k = EXEC_ATTEMPTS;
    EXEC_ATTEMPTS += 1;
    let mut i = 0;
    while i < PATHMAX {
        let b = *path.add(i) as u8;
        EXEC_PATH[k][i] = b;
        if b == 0 {
            break;
        }
        i += 1;
    }
    EXEC_PATH_LEN[k] = i;
    EXEC_PATH_PTR[k] = path as usize;
    EXEC_ARGV = argv;
    EXEC_ENVP = envp;
    EXEC_WITH_ENV = with_env;
    if CHILD_FAILED {
        // an injected failure of an earlier step: C07 already flagged it
        return fail(libc::EACCES);
    }
    CHILD_STEPS += 1;
    let verdict = if CHILD_FAIL_AT != 0 && CHILD_STEPS == CHILD_FAIL_AT {
        CHILD_FAIL_ERRNO
    } else {
        EXEC_VERDICT[k]
    };
    if verdict != 0 {
        ERRNO = verdict;
        EXPECT_REPORT = verdict;
        EXEC_FAILED_ONCE = true;
        return -1;
    }
    // The program image starts here: the child's descriptor table, signal
    // state, credentials and vectors are final.
    EXEC_STARTED = true;
    exec_time_checks();
    if let Some(f) = AT_EXEC {
        f();
    }
    kani::cover!(true, "COVER/exec-started");
    kani::assume(false);
    0
}

#[no_mangle]
pub unsafe extern "C" fn execv(path: *const c_char, argv: *const *const c_char) -> c_int {
    exec_common(path, argv, core::ptr::null(), false)
}

#[no_mangle]
pub unsafe extern "C" fn execve(path: *const c_char, argv: *const *const c_char, envp: *const *const c_char) -> c_int {
    exec_common(path, argv, envp, true)
}

/// Expected wiring of the child's fds 0,1,2 at exec (set by the harness from
/// the configuration alone).
pub static mut EXPECT_FD: [Obj; 3] = [Obj::Closed; 3];
pub static mut EXPECT_FD_SET: bool = false;

// ---- expectations for C06 (set by the harness from its own copy of the request)
pub const AMAX: usize = 4; // max strings
pub const SMAX: usize = 6; // max bytes per string
pub static mut EXP_ARGV_SET: bool = false;
pub static mut EXP_ARGC: usize = 0;
pub static mut EXP_ARGV: [[u8; SMAX]; AMAX] = [[0; SMAX]; AMAX];
pub static mut EXP_ARGV_LEN: [usize; AMAX] = [0; AMAX];
pub static mut EXP_PATH_SET: bool = false;
pub static mut EXP_PATH: [u8; SMAX] = [0; SMAX];
pub static mut EXP_PATH_LEN: usize = 0;
/// 0 = not checked, 1 = environment must be inherited (execv), 2 = explicit
pub static mut EXP_ENV_MODE: u8 = 0;
pub static mut EXP_ENVC: usize = 0;
pub static mut EXP_ENV: [[u8; SMAX]; AMAX] = [[0; SMAX]; AMAX];
pub static mut EXP_ENV_LEN: [usize; AMAX] = [0; AMAX];
pub static mut EXP_CWD_MODE: u8 = 0; // 0 unchecked, 1 must not chdir, 2 must be EXP_CWD
pub static mut EXP_CWD: [u8; CWDMAX] = [0; CWDMAX];
pub static mut EXP_CWD_LEN: usize = 0;
pub static mut EXP_ID_SET: bool = false;
pub static mut EXP_UID: Option<u32> = None;
pub static mut EXP_GID: Option<u32> = None;
pub static mut EXP_PGID: bool = false;

/// does the C string at `p` equal bytes[..len] (and end there)?
pub unsafe fn cstr_eq(p: *const c_char, bytes: &[u8; SMAX], len: usize) -> bool {
    if p.is_null() {
        return false;
    }
    let mut i = 0;
    while i < SMAX {
        let b = *p.add(i) as u8;
        if i == len {
            return b == 0;
        }
        if b != bytes[i] || b == 0 {
            return false;
        }
        i += 1;
    }
    false
}

pub unsafe fn c06_checks() {
    if EXP_ARGV_SET {
        let mut i = 0;
        while i < AMAX {
            if i < EXP_ARGC {
                let ok = cstr_eq(*EXEC_ARGV.add(i), &EXP_ARGV[i], EXP_ARGV_LEN[i]);
                vcheck!(C06, ok, "C06/argv-bytes: an argument seen by the child differs from the one given (or is not NUL-terminated where it should be)");
            }
            i += 1;
        }
        vcheck!(C06, (*EXEC_ARGV.add(EXP_ARGC)).is_null(), "C06/argv-count: the child's argument vector does not end after the given arguments");
    }
    if EXP_PATH_SET {
        let k = EXEC_ATTEMPTS - 1;
        let mut same = EXEC_PATH_LEN[k] == EXP_PATH_LEN;
        let mut i = 0;
        while i < SMAX {
            if i < EXP_PATH_LEN && EXEC_PATH[k][i] != EXP_PATH[i] {
                same = false;
            }
            i += 1;
        }
        vcheck!(C06, same, "C06/program: the program image started is not the requested executable");
    }
    if EXP_ENV_MODE == 1 {
        vcheck!(C06, !EXEC_WITH_ENV, "C06/env-inherit: environment unspecified but an explicit environment was passed to exec");
    }
    if EXP_ENV_MODE == 2 {
        vcheck!(C06, EXEC_WITH_ENV, "C06/env-explicit: an explicit environment was requested but exec inherits the parent's");
        if EXEC_WITH_ENV {
            // count entries
            let mut n = 0;
            while n < AMAX + 1 && !(*EXEC_ENVP.add(n)).is_null() {
                n += 1;
            }
            vcheck!(C06, n == EXP_ENVC, "C06/env-count: the child's environment has a different number of entries than distinct names requested (a duplicate survived or a variable was lost)");
            let mut j = 0;
            while j < AMAX {
                if j < EXP_ENVC {
                    let mut hits = 0;
                    let mut i = 0;
                    while i < AMAX {
                        if i < n && cstr_eq(*EXEC_ENVP.add(i), &EXP_ENV[j], EXP_ENV_LEN[j]) {
                            hits += 1;
                        }
                        i += 1;
                    }
                    vcheck!(C06, hits == 1, "C06/env-entry: a requested NAME=value (last value per name) is not present exactly once in the child's environment");
                }
                j += 1;
            }
        }
    }
    if EXP_CWD_MODE == 1 {
        vcheck!(C06, !CWD_SET, "C06/cwd-inherit: working directory changed although none was requested");
    }
    if EXP_CWD_MODE == 2 {
        let mut same = CWD_SET && CWD_LEN == EXP_CWD_LEN;
        let mut i = 0;
        while i < CWDMAX {
            if i < EXP_CWD_LEN && CWD[i] != EXP_CWD[i] {
                same = false;
            }
            i += 1;
        }
        vcheck!(C06, same, "C06/cwd: the child's working directory at exec is not the requested one");
    }
    if EXP_ID_SET {
        if let Some(u) = EXP_UID {
            vcheck!(C06, RUID == u && EUID == u, "C06/uid: the child does not run with the requested user id at exec");
        } else {
            vcheck!(C06, RUID == 0 && EUID == 0, "C06/uid-unchanged: user id changed although not requested");
        }
        if let Some(g) = EXP_GID {
            vcheck!(C06, RGID == g && EGID == g, "C06/gid: the child does not run with the requested group id at exec");
        } else {
            vcheck!(C06, RGID == 0 && EGID == 0, "C06/gid-unchanged: group id changed although not requested");
        }
        vcheck!(C06, PGID_IS_SELF == EXP_PGID, "C06/pgid: fresh process group iff requested");
    }
}

/// Generic exec-time assertions shared by all spawn harnesses.
pub unsafe fn exec_time_checks() {
    c06_checks();
    // ---- C05: wiring
    if EXPECT_FD_SET {
        vcheck!(C05, FDT[0].obj == EXPECT_FD[0], "C05/child-stdin: child's fd 0 is not the requested object at exec");
        vcheck!(C05, FDT[1].obj == EXPECT_FD[1], "C05/child-stdout: child's fd 1 is not the requested object at exec");
        vcheck!(C05, FDT[2].obj == EXPECT_FD[2], "C05/child-stderr: child's fd 2 is not the requested object at exec");
        vcheck!(C05, !FDT[0].cloexec && !FDT[1].cloexec && !FDT[2].cloexec, "C05/child-std-cloexec: a standard stream of the child is close-on-exec");
        vcheck!(C13, FDT[0].obj == EXPECT_FD[0], "C13/stage-stdin: stage's fd 0 is not the expected object at exec");
        vcheck!(C13, FDT[1].obj == EXPECT_FD[1], "C13/stage-stdout: stage's fd 1 is not the expected object at exec");
        vcheck!(C13, FDT[2].obj == EXPECT_FD[2], "C13/stage-stderr: stage's fd 2 is not the expected object at exec");
    }
    // ---- C08: nothing but 0,1,2 of library-created pipes survives exec
    {
        let mut i = 3;
        while i < NFD {
            let e = FDT[i];
            let is_pipe = match e.obj {
                Obj::PipeR(_) | Obj::PipeW(_) => true,
                _ => false,
            };
            let leaked_pipe = is_pipe && !e.cloexec;
            vcheck!(C08, !leaked_pipe, "C08/no-pipe-end-survives-exec: a library pipe end above fd 2 is inherited by the child program");
            vcheck!(C13, !leaked_pipe, "C13/no-extra-pipe-end: a pipeline pipe end above fd 2 is inherited by a stage");
            i += 1;
        }
    }
    // ---- C18: clean signal state
    vcheck!(C18, sig::MASK == 0, "C18/mask-empty: child starts its program with a non-empty signal mask");
    vcheck!(C18, !sig::SIGPIPE_IGNORED, "C18/sigpipe-default: child starts its program with SIGPIPE not at default");
    // ---- C17: no allocation since fork
    vcheck!(C17, VK_ALLOCS == ALLOC_AT_FORK, "C17/no-alloc-before-exec: heap allocation between fork and exec");
    // ---- C07: exec only if nothing failed before
    vcheck!(C07, !CHILD_FAILED, "C07/no-exec-after-failure: exec reached although an earlier child-side step failed");
}

// ----------------------------------------------------------- _exit --------

/// errno the child is expected to report: the injected errno of the failed
/// step, or the errno of the last failed exec attempt
pub static mut EXPECT_REPORT: c_int = 0;
pub static mut STATUS_WRITTEN: [u8; 8] = [0; 8];
pub static mut STATUS_WRITTEN_LEN: usize = 0;
pub static mut EXITED_WITH: c_int = -1;
/// hook: harness-specific assertions when the child calls _exit
pub static mut AT_EXIT: Option<unsafe fn()> = None;

#[no_mangle]
pub unsafe extern "C" fn _exit(status: c_int) -> ! {
    on_syscall();
    vmodel!(IN_CHILD, "MODEL/_exit: _exit called outside the forked child");
    EXITED_WITH = status;
    if EXPECT_STD_REFUSAL && !CHILD_FAILED && !EXEC_FAILED_ONCE {
        CHILD_FAILED = true;
        EXPECT_REPORT = -1;
    }
    kani::cover!(CHILD_FAILED, "COVER/child-step-failed");
    vcheck!(C06, !(KERNEL_REFUSED && EXP_ID_SET && CHILD_FAIL_AT == 0), "C06/identity-applied: a root parent requested user id and group id but the launch failed with EPERM (the identity changes were issued in an order the kernel refuses)");
    kani::cover!(EXEC_FAILED_ONCE && !CHILD_FAILED, "COVER/child-exec-failed");
    vcheck!(C07, CHILD_FAILED || EXEC_FAILED_ONCE, "C07/child-exits-only-on-failure: the forked child exited although no step failed");
    vcheck!(C07, status == 127, "C07/child-exit-127: the child of a failed launch does not _exit(127)");
    {
        let v = EXPECT_REPORT as u32;
        let ok = STATUS_WRITTEN_LEN == 4
            && STATUS_WRITTEN[0] == v as u8
            && STATUS_WRITTEN[1] == (v >> 8) as u8
            && STATUS_WRITTEN[2] == (v >> 16) as u8
            && STATUS_WRITTEN[3] == (v >> 24) as u8;
        vcheck!(C07, ok, "C07/child-reports-errno: the child did not report exactly the 4 little-endian bytes of the failing step's errno");
        vcheck!(C15, !EXEC_FAILED_ONCE || CHILD_FAILED || ok, "C15/launch-fails-with-os-error: when no candidate starts the launch must fail with the error of a candidate");
    }
    let status_w_open = match STATUS_PIPE {
        Some(sp) => count_obj(Obj::PipeW(sp)) != 0,
        None => true,
    };
    vcheck!(C07, status_w_open, "C07/report-channel-open: the status channel was closed before the report");
    vcheck!(C17, VK_ALLOCS == ALLOC_AT_FORK, "C17/no-alloc-before-exit: heap allocation in the child between fork and _exit");
    if let Some(f) = AT_EXIT {
        f();
    }
    kani::cover!(true, "COVER/child-exit");
    kani::assume(false);
    loop {}
}

// launch-status pipe, child side
pub unsafe fn status_pipe_write(buf: *const u8, n: usize) -> ssize_t {
    vcheck!(C17, VK_ALLOCS == ALLOC_AT_FORK, "C17/no-alloc-before-report: heap allocation in the child before the error report");
    let mut i = 0;
    while i < n && STATUS_WRITTEN_LEN < 8 {
        STATUS_WRITTEN[STATUS_WRITTEN_LEN] = *buf.add(i);
        STATUS_WRITTEN_LEN += 1;
        i += 1;
    }
    n as ssize_t
}

// launch-status pipe, parent side: what the most recently forked child reports
pub unsafe fn status_pipe_read(buf: *mut u8, n: usize) -> ssize_t {
    vmodel!(!IN_CHILD, "MODEL/status-read: child reads the status pipe");
    // The parent must have closed its own copy of the write end, or this read
    // would never see EOF (a hang, not a return value).
    let p = match STATUS_PIPE {
        Some(p) => p,
        None => 0,
    };
    let holds_w = count_obj(Obj::PipeW(p)) != 0;
    vcheck!(C07, !holds_w, "C07/status-read-without-deadlock: parent reads the launch-status pipe while still holding its write end");
    vmodel!(NKIDS >= 1, "MODEL/status-read: no child");
    let e = KID_LAUNCH_ERRNO[NKIDS - 1];
    if AUTO_STATUS {
        STATUS_PIPE = None;
    }
    if e == 0 {
        return 0;
    }
    vmodel!(n >= 4, "MODEL/status-read: buffer shorter than 4 bytes");
    let v = e as u32;
    *buf = v as u8;
    *buf.add(1) = (v >> 8) as u8;
    *buf.add(2) = (v >> 16) as u8;
    *buf.add(3) = (v >> 24) as u8;
    // a child whose launch failed exits with 127 right after reporting
    KIDS[NKIDS - 1].st = KidSt::Zombie;
    KIDS[NKIDS - 1].status = 127 << 8;
    4
}

// --------------------------------------------------------- waitpid --------

/// hook: deadlock oracle for blocking waits (C12/C14), set by harnesses
pub static mut AT_BLOCKING_WAIT: Option<unsafe fn(usize)> = None;

pub unsafe fn world_step() {
    let mut i = 0;
    while i < NKID {
        if KIDS[i].st == KidSt::Running && KIDS_MAY_EXIT && kani::any() {
            KIDS[i].st = KidSt::Zombie;
        }
        if KIDS[i].st == KidSt::Zombie && FOREIGN_REAPER && kani::any() {
            KIDS[i].st = KidSt::Reaped;
        }
        i += 1;
    }
}

#[no_mangle]
pub unsafe extern "C" fn waitpid(pid: pid_t, status: *mut c_int, flags: c_int) -> pid_t {
    on_syscall();
    world_step();
    WAITPID_CALLS += 1;
    vmodel!(pid > 0, "MODEL/waitpid: only waitpid(pid>0) is modelled");
    let k = match kid_index(pid) {
        Some(k) => k,
        None => return fail(libc::ECHILD),
    };
    vcheck!(C09, !KIDS[k].reaped_by_us, "C09/no-wait-after-reap: waitpid issued for a child this Popen already reaped");
    match KIDS[k].st {
        KidSt::Reaped => {
            ECHILD_SEEN = true;
            fail(libc::ECHILD)
        }
        KidSt::Running => {
            if flags & libc::WNOHANG != 0 {
                return 0;
            }
            WAITPID_BLOCKING_CALLS += 1;
            if WAIT_EINTR_ARMED && !EINTR_INJECTED && kani::any() {
                // a signal handler installed without SA_RESTART ran in this thread
                // while the child is still running
                EINTR_INJECTED = true;
                return fail(libc::EINTR);
            }
            if let Some(f) = AT_BLOCKING_WAIT {
                f(k);
            }
            // the child terminates eventually and we collect it
            KIDS[k].st = KidSt::Reaped;
            KIDS[k].reaped_by_us = true;
            *status = KIDS[k].status;
            pid
        }
        KidSt::Zombie => {
            if flags & libc::WNOHANG == 0 {
                WAITPID_BLOCKING_CALLS += 1;
            }
            KIDS[k].st = KidSt::Reaped;
            KIDS[k].reaped_by_us = true;
            *status = KIDS[k].status;
            pid
        }
        KidSt::Unused => fail(libc::ECHILD),
    }
}

/// Signalling a process group reaches processes other than the child: C10
/// allows exactly kill(child pid, sig).
#[no_mangle]
pub unsafe extern "C" fn killpg(pgrp: pid_t, sig: c_int) -> c_int {
    on_syscall();
    world_step();
    KILL_CALLS += 1;
    LAST_KILL_PID = -pgrp;
    LAST_KILL_SIG = sig;
    vcheck!(C10, false, "C10/only-the-child: killpg() issued: the signal goes to a whole process group, not to exactly the child's pid");
    0
}

#[no_mangle]
pub unsafe extern "C" fn kill(pid: pid_t, sig: c_int) -> c_int {
    on_syscall();
    world_step();
    KILL_CALLS += 1;
    LAST_KILL_PID = pid;
    LAST_KILL_SIG = sig;
    match kid_index(pid) {
        Some(k) => {
            vcheck!(C10, !KIDS[k].reaped_by_us, "C10/no-signal-after-reap: kill() issued for a pid this Popen has already reaped");
            vcheck!(C10, !ECHILD_SEEN, "C10/no-signal-after-foreign-reap-observed: kill() issued although an earlier query found the child reaped by someone else (the pid may have been recycled)");
            if KIDS[k].st == KidSt::Reaped {
                // reaped by someone else: pid may be recycled -- the statement
                // only forbids signalling after *we* observed the termination
                return fail(libc::ESRCH);
            }
        }
        None => {
            vcheck!(C10, false, "C10/only-the-child: kill() issued for a pid that is not the child's");
            return fail(libc::ESRCH);
        }
    }
    if KILL_RESULT_ERRNO != 0 {
        return fail(KILL_RESULT_ERRNO);
    }
    0
}

// ------------------------------------------------------ allocations -------

/// Allocation observer (C17): bumped by Kani's C model of __rust_alloc /
/// __rust_alloc_zeroed / __rust_realloc (one line added to each at link time,
/// see vlib/kani.py instrumented_kani_lib).
#[no_mangle]
pub static mut VK_ALLOCS: u32 = 0;
pub static mut ALLOC_AT_FORK: u32 = 0;

// --------------------------------------------- boundary invariants --------

/// When set, at every model-call boundary in parent role every open
/// parent-side end of a pipe created by the spawn under analysis must be
/// close-on-exec (C08, multi-threaded clause).  PARENT_END[p] tells which end
/// of pipe p the parent keeps: 0 unknown/none, 1 read end, 2 write end, 3 both.
pub static mut BOUNDARY_CLOEXEC: bool = false;

pub unsafe fn boundary_invariants() {
    if BOUNDARY_CLOEXEC && !IN_CHILD {
        let mut i = 3;
        while i < NFD {
            let e = FDT[i];
            let is_pipe = match e.obj {
                Obj::PipeR(_) | Obj::PipeW(_) => true,
                _ => false,
            };
            if is_pipe {
                vcheck!(C08, e.cloexec, "C08/boundary-cloexec: at a system-call boundary of the spawning thread a library pipe end is inheritable (a concurrent fork+exec would leak it)");
            }
            i += 1;
        }
    }
}
