//! Signal state of the calling thread/process.
use super::*;
use libc::c_int;

/// blocked-signal mask of the current thread (bit i = signal i+1)
pub static mut MASK: u64 = 0;
pub static mut SIGPIPE_IGNORED: bool = true;

#[no_mangle]
pub unsafe extern "C" fn sigemptyset(set: *mut libc::sigset_t) -> c_int {
    on_syscall();
    proc_::child_step_called(proc_::Step::SigEmpty);
    if proc_::child_step_fails(proc_::Step::SigEmpty) {
        return -1;
    }
    core::ptr::write_bytes(set as *mut u8, 0, core::mem::size_of::<libc::sigset_t>());
    0
}

#[no_mangle]
pub unsafe extern "C" fn pthread_sigmask(how: c_int, set: *const libc::sigset_t, old: *mut libc::sigset_t) -> c_int {
    on_syscall();
    proc_::child_step_called(proc_::Step::SigMask);
    if proc_::child_step_fails(proc_::Step::SigMask) {
        // pthread_sigmask returns the error number, it does not set errno;
        // the crate's check_err only looks at the sign, so a positive return
        // is "success" for it.  Model the libc contract faithfully.
        return ERRNO;
    }
    if !old.is_null() {
        core::ptr::write_bytes(old as *mut u8, 0, core::mem::size_of::<libc::sigset_t>());
        *(old as *mut u64) = MASK;
    }
    if !set.is_null() {
        let m = *(set as *const u64);
        if how == libc::SIG_SETMASK {
            MASK = m;
        } else if how == libc::SIG_BLOCK {
            MASK |= m;
        } else if how == libc::SIG_UNBLOCK {
            MASK &= !m;
        } else {
            return libc::EINVAL;
        }
    }
    0
}

#[no_mangle]
pub unsafe extern "C" fn signal(signum: c_int, handler: libc::sighandler_t) -> libc::sighandler_t {
    on_syscall();
    proc_::child_step_called(proc_::Step::Signal);
    if proc_::child_step_fails(proc_::Step::Signal) {
        return libc::SIG_ERR;
    }
    if signum == libc::SIGPIPE {
        let prev = if SIGPIPE_IGNORED { libc::SIG_IGN } else { libc::SIG_DFL };
        SIGPIPE_IGNORED = handler == libc::SIG_IGN;
        return prev;
    }
    vmodel!(false, "MODEL/signal: only SIGPIPE is modelled");
    libc::SIG_DFL
}
