// Harnesses living inside `mod exec`: they see Exec's private fields, the
// adapters and display_escape.
#[cfg(kani)]
mod vh_exec {
    use super::*;
    use crate::mk;
    use crate::mk::proc_ as mp;
    use crate::mk::Obj;
    use crate::os_common::StandardStream;
    use crate::popen::PopenError;
    use std::rc::Rc;

    pub fn gss(which: StandardStream) -> io::Result<Rc<File>> {
        crate::posix::make_standard_stream(which)
    }

    /// deadlock oracle for blocking waits (see vh_pipeline::blocking_wait_oracle)
    pub unsafe fn blocking_wait_oracle(k: usize) {
        let mine = mp::mask_of_open_pipe_ends();
        let his = mp::KIDS[k].holds;
        let sp = mp::KIDS[k].status_pipe;
        let spm: u16 = if sp < 8 { !(1u16 << sp) } else { 0xffff };
        let his_read = his & 0xff;
        let his_write = (his >> 8) & 0xff;
        let my_read = mine & 0xff;
        let my_write = (mine >> 8) & 0xff;
        vcheck!(C12, (his_read & my_write & spm) == 0, "C12/no-wait-holding-childs-stdin: a handle waits for its child while still holding the write end of the child's stdin pipe (a child waiting for end-of-file is never released)");
        vcheck!(C12, (his_write & my_read & spm) == 0, "C12/no-wait-holding-childs-output: a handle waits for its child while still holding the read end of a pipe the child writes to (a child blocked on a full pipe is never released)");
    }

    pub unsafe fn parent_role() {
        mk::reset();
        mk::init_std_fds();
        mp::AUTO_STATUS = true;
        mp::AT_BLOCKING_WAIT = Some(blocking_wait_oracle);
        mp::KID_STATUS[0] = (kani::any::<u8>() as i32) << 8;
    }

    pub unsafe fn after_handle_gone(detached: bool) {
        vcheck!(C12, detached || mp::KIDS[0].st == mp::KidSt::Reaped, "C12/handle-reaps: a non-detached handle went away and left its child unreaped");
        vcheck!(C12, !detached || (mp::WAITPID_CALLS == 0 && mp::KIDS[0].st == mp::KidSt::Running), "C12/detached-never-waits: a detached handle waited for or reaped the child");
        let mut f = 3;
        while f < mk::NFD {
            vcheck!(C12, mk::FDT[f].obj == Obj::Closed, "C12/no-descriptor-left: a descriptor of the handle is still open after it went away");
            f += 1;
        }
    }

    /// which: 0 stream_stdout, 1 stream_stderr, 2 stream_stdin, 3 join, 4 popen+drop
    pub unsafe fn adapter_case(which: u8, detached: bool) {
        parent_role();
        let mut e = Exec::cmd("/p");
        if detached {
            e = e.detached();
        }
        match which {
            0 => {
                let r = e.stream_stdout();
                match r {
                    Ok(a) => {
                        kani::cover!(true, "COVER/adapter-created");
                        drop(a);
                    }
                    Err(x) => std::mem::forget(x),
                }
            }
            1 => {
                let r = e.stream_stderr();
                match r {
                    Ok(a) => drop(a),
                    Err(x) => std::mem::forget(x),
                }
            }
            2 => {
                let r = e.stream_stdin();
                match r {
                    Ok(a) => drop(a),
                    Err(x) => std::mem::forget(x),
                }
            }
            3 => {
                let r = e.join();
                match r {
                    Ok(s) => {
                        vcheck!(C12, detached || s == ExitStatus::Exited(((mp::KID_STATUS[0] >> 8) & 0xff) as u32), "C12/join-status: join() returned a status that is not the child's");
                    }
                    Err(x) => std::mem::forget(x),
                }
            }
            _ => {
                let r = e.stdin(Redirection::Pipe).stdout(Redirection::Pipe).popen();
                match r {
                    Ok(mut p) => {
                        // the caller releases the pipe ends it was given, then drops
                        p.stdin.take();
                        p.stdout.take();
                        drop(p);
                    }
                    Err(x) => std::mem::forget(x),
                }
            }
        }
        if which != 3 || !detached {
            after_handle_gone(detached && which != 3);
        }
    }

    macro_rules! adapter_harness {
        ($name:ident, $w:expr) => {
            #[kani::proof]
            #[kani::stub(crate::popen::get_standard_stream, gss)]
            #[kani::stub(crate::posix::fcntl, crate::mk::fcntl_model)]
            #[kani::stub(std::env::var_os, crate::posix::vh_posix::var_os_model)]
            fn $name() {
                mk::link_model();
                unsafe { adapter_case($w, kani::any()) }
            }
        };
    }
    adapter_harness!(h_adapter_stdout, 0);
    adapter_harness!(h_adapter_stderr, 1);
    adapter_harness!(h_adapter_stdin, 2);
    adapter_harness!(h_adapter_join, 3);
    adapter_harness!(h_adapter_popen, 4);
}
