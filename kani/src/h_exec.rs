// harnesses (h_exec)
