// Harnesses living inside `mod exec`: they see Exec's private fields, the
// adapters and display_escape.
#[cfg(kani)]
mod vh_exec {
    use super::*;
    use crate::mk;
    use crate::mk::proc_ as mp;
    use crate::mk::Obj;
    use crate::os_common::StandardStream;
    use crate::popen::PopenError;
    use std::rc::Rc;

    pub fn gss(which: StandardStream) -> io::Result<Rc<File>> {
        crate::posix::make_standard_stream(which)
    }

    /// deadlock oracle for blocking waits (see vh_pipeline::blocking_wait_oracle)
    pub unsafe fn blocking_wait_oracle(k: usize) {
        let mine = mp::mask_of_open_pipe_ends();
        let his = mp::KIDS[k].holds;
        let sp = mp::KIDS[k].status_pipe;
        let spm: u16 = if sp < 8 { !(1u16 << sp) } else { 0xffff };
        let his_read = his & 0xff;
        let his_write = (his >> 8) & 0xff;
        let my_read = mine & 0xff;
        let my_write = (mine >> 8) & 0xff;
        vcheck!(C12, (his_read & my_write & spm) == 0, "C12/no-wait-holding-childs-stdin: a handle waits for its child while still holding the write end of the child's stdin pipe (a child waiting for end-of-file is never released)");
        vcheck!(C12, (his_write & my_read & spm) == 0, "C12/no-wait-holding-childs-output: a handle waits for its child while still holding the read end of a pipe the child writes to (a child blocked on a full pipe is never released)");
    }

    pub unsafe fn parent_role() {
        mk::reset();
        mk::init_std_fds();
        mp::AUTO_STATUS = true;
        mp::AT_BLOCKING_WAIT = Some(blocking_wait_oracle);
        mp::KID_STATUS[0] = (kani::any::<u8>() as i32) << 8;
    }

    pub unsafe fn after_handle_gone(detached: bool) {
        vcheck!(C12, detached || mp::KIDS[0].st == mp::KidSt::Reaped, "C12/handle-reaps: a non-detached handle went away and left its child unreaped");
        vcheck!(C12, !detached || (mp::WAITPID_CALLS == 0 && mp::KIDS[0].st == mp::KidSt::Running), "C12/detached-never-waits: a detached handle waited for or reaped the child");
        let mut f = 3;
        while f < mk::NFD {
            vcheck!(C12, mk::FDT[f].obj == Obj::Closed, "C12/no-descriptor-left: a descriptor of the handle is still open after it went away");
            f += 1;
        }
    }

    /// which: 0 stream_stdout, 1 stream_stderr, 2 stream_stdin, 3 join, 4 popen+drop
    pub unsafe fn adapter_case(which: u8, detached: bool) {
        parent_role();
        let mut e = Exec::cmd("/p");
        if detached {
            e = e.detached();
        }
        match which {
            0 => {
                let r = e.stream_stdout();
                match r {
                    Ok(a) => {
                        kani::cover!(true, "COVER/adapter-created");
                        drop(a);
                    }
                    Err(x) => std::mem::forget(x),
                }
            }
            1 => {
                let r = e.stream_stderr();
                match r {
                    Ok(a) => drop(a),
                    Err(x) => std::mem::forget(x),
                }
            }
            2 => {
                let r = e.stream_stdin();
                match r {
                    Ok(a) => drop(a),
                    Err(x) => std::mem::forget(x),
                }
            }
            3 => {
                let r = e.join();
                match r {
                    Ok(s) => {
                        vcheck!(C12, detached || s == ExitStatus::Exited(((mp::KID_STATUS[0] >> 8) & 0xff) as u32), "C12/join-status: join() returned a status that is not the child's");
                    }
                    Err(x) => std::mem::forget(x),
                }
            }
            _ => {
                let r = e.stdin(Redirection::Pipe).stdout(Redirection::Pipe).popen();
                match r {
                    Ok(mut p) => {
                        // the caller releases the pipe ends it was given, then drops
                        p.stdin.take();
                        p.stdout.take();
                        drop(p);
                    }
                    Err(x) => std::mem::forget(x),
                }
            }
        }
        if which != 3 || !detached {
            after_handle_gone(detached && which != 3);
        }
    }

    macro_rules! adapter_harness {
        ($name:ident, $w:expr) => {
            #[kani::proof]
            #[kani::stub(crate::popen::get_standard_stream, gss)]
            #[kani::stub(crate::posix::fcntl, crate::mk::fcntl_model)]
            #[kani::stub(std::env::var_os, crate::posix::vh_posix::var_os_model)]
            fn $name() {
                mk::link_model();
                unsafe { adapter_case($w, kani::any()) }
            }
        };
    }
    #[kani::proof]
    #[kani::stub(crate::popen::get_standard_stream, gss)]
    #[kani::stub(crate::posix::fcntl, crate::mk::fcntl_model)]
    #[kani::stub(std::env::var_os, crate::posix::vh_posix::var_os_model)]
    fn h_adapter_stdout_c() {
        mk::link_model();
        unsafe {
            mk::reset();
            mk::init_std_fds();
            mp::AUTO_STATUS = true;
            mp::AT_BLOCKING_WAIT = Some(blocking_wait_oracle);
            let r = Exec::cmd("/p").stream_stdout();
            match r {
                Ok(a) => {
                    kani::cover!(true, "COVER/adapter-created");
                    drop(a);
                }
                Err(x) => std::mem::forget(x),
            }
            after_handle_gone(false);
        }
    }
    adapter_harness!(h_adapter_stdout, 0);
    adapter_harness!(h_adapter_stderr, 1);
    adapter_harness!(h_adapter_stdin, 2);
    adapter_harness!(h_adapter_join, 3);
    adapter_harness!(h_adapter_popen, 4);

    // ------------------------------------------------------------------
    // C16: the builder as ordered edits on a plain command description
    // (no process is started: these harnesses inspect the accumulated Exec)
    // ------------------------------------------------------------------
    use std::os::unix::ffi::{OsStrExt, OsStringExt};

    /// model of the parent's environment seen by ensure_env: A=0
    pub fn current_env_model() -> Vec<(OsString, OsString)> {
        vec![(OsString::from("A"), OsString::from("0"))]
    }

    pub fn one(b: u8) -> OsString {
        OsString::from_vec(vec![b])
    }

    pub fn key(second: bool) -> u8 {
        if second {
            b'B'
        } else {
            b'A'
        }
    }

    /// effective value of `k` in an env list: the last entry for that name
    pub fn effective(env: &Option<Vec<(OsString, OsString)>>, k: u8, inherited: Option<u8>) -> Option<u8> {
        match env {
            None => inherited,
            Some(v) => {
                let mut r = None;
                let mut i = 0;
                while i < 6 {
                    if i < v.len() {
                        let kb = v[i].0.as_bytes();
                        if kb.len() == 1 && kb[0] == k {
                            let vb = v[i].1.as_bytes();
                            r = Some(if vb.len() == 1 { vb[0] } else { 0 });
                        }
                    }
                    i += 1;
                }
                r
            }
        }
    }

    /// One environment edit, concrete in kind and name (a symbolic kind/name makes
    /// the Vec lengths symbolic and the SAT back end runs out of memory even at
    /// 94 k steps, measured), symbolic in value; updates the reference cells.
    pub fn env_op(e: Exec, op: u8, second: bool, ra: &mut Option<u8>, rb: &mut Option<u8>) -> Exec {
        let k = key(second);
        let v: u8 = kani::any();
        kani::assume(v != 0);
        if op == 0 {
            if second { *rb = Some(v) } else { *ra = Some(v) }
            e.env(one(k), one(v))
        } else if op == 1 {
            if second { *rb = Some(v) } else { *ra = Some(v) }
            e.env_extend(&[(one(k), one(v))])
        } else if op == 2 {
            if second { *rb = None } else { *ra = None }
            e.env_remove(one(k))
        } else {
            *ra = None;
            *rb = None;
            e.env_clear()
        }
    }

    pub fn env_seq(ops: [(u8, bool); 3]) {
        let mut e = Exec::cmd("c");
        let mut ra: Option<u8> = Some(b'0'); // inherited A=0
        let mut rb: Option<u8> = None;
        e = env_op(e, ops[0].0, ops[0].1, &mut ra, &mut rb);
        e = env_op(e, ops[1].0, ops[1].1, &mut ra, &mut rb);
        e = env_op(e, ops[2].0, ops[2].1, &mut ra, &mut rb);
        let ga = effective(&e.config.env, b'A', Some(b'0'));
        let gb = effective(&e.config.env, b'B', None);
        assert!(ga == ra, "C16/env-edits-in-order: after a sequence of env/env_extend/env_remove/env_clear calls the effective value of an inherited variable differs from the ordered-edits model");
        assert!(gb == rb, "C16/env-edits-in-order: after a sequence of env edits the effective value of a new variable differs from the ordered-edits model");
        std::mem::forget(e);
    }

    macro_rules! env_harness {
        ($name:ident, $ops:expr) => {
            #[kani::proof]
            #[kani::stub(crate::popen::PopenConfig::current_env, current_env_model)]
            fn $name() {
                env_seq($ops)
            }
        };
    }
    // remove-then-set, set-twice-then-remove, clear-then-extend, duplicate names across calls,
    // remove inherited then set other, set / clear / set
    env_harness!(h_env_rm_set, [(2, false), (0, false), (0, true)]);
    env_harness!(h_env_set_set_rm, [(0, true), (1, true), (2, true)]);
    env_harness!(h_env_clear_ext, [(0, false), (3, false), (1, true)]);
    env_harness!(h_env_dup, [(0, false), (1, false), (0, false)]);
    env_harness!(h_env_rm_other, [(2, false), (0, true), (2, true)]);
    env_harness!(h_env_set_clear_set, [(0, true), (3, false), (0, false)]);

    /// arguments appear in the order added: arg, args, arg with symbolic values
    #[kani::proof]
    fn h_build_args() {
        let x: u8 = kani::any();
        let y: u8 = kani::any();
        let z: u8 = kani::any();
        let w: u8 = kani::any();
        kani::assume(x != 0 && y != 0 && z != 0 && w != 0);
        let e = Exec::cmd("c").arg(one(x)).args(&[one(y), one(z)]).arg(one(w));
        let want = [x, y, z, w];
        assert!(e.args.len() == 4, "C16/args-in-order: the number of accumulated arguments differs from the number added");
        let mut i = 0;
        while i < 4 {
            let b = e.args[i].as_bytes();
            assert!(b.len() == 1 && b[0] == want[i], "C16/args-in-order: arguments do not appear in the order they were added");
            i += 1;
        }
        assert!(e.command.as_bytes() == b"c", "C16/command-kept: the command changed while adding arguments");
        std::mem::forget(e);
    }

    /// Exec::shell passes its string to the platform shell as one single argument
    #[kani::proof]
    fn h_shell() {
        let a: u8 = kani::any();
        let b: u8 = kani::any();
        kani::assume(a != 0 && b != 0);
        let e = Exec::shell(OsString::from_vec(vec![a, b]));
        assert!(e.command.as_bytes() == b"sh", "C16/shell-command: Exec::shell does not run the platform shell");
        assert!(e.args.len() == 2, "C16/shell-single-argument: Exec::shell does not pass exactly the option and ONE argument");
        assert!(e.args[0].as_bytes() == b"-c", "C16/shell-single-argument: the shell option is not -c");
        let s = e.args[1].as_bytes();
        assert!(s.len() == 2 && s[0] == a && s[1] == b, "C16/shell-single-argument: the command string is not passed verbatim as one argument");
        std::mem::forget(e);
    }

    /// cloning yields an independent equivalent command
    #[kani::proof]
    #[kani::stub(crate::popen::PopenConfig::current_env, current_env_model)]
    fn h_clone() {
        let x: u8 = kani::any();
        let v: u8 = kani::any();
        kani::assume(x != 0 && v != 0);
        let e = Exec::cmd("c").arg(one(x)).env(one(b'B'), one(v)).stdout(Redirection::Pipe).detached();
        let c = e.clone();
        assert!(c.command.as_bytes() == b"c" && c.args.len() == 1 && c.args[0].as_bytes()[0] == x, "C16/clone-equivalent: the clone's command line differs");
        assert!(effective(&c.config.env, b'B', None) == Some(v) && effective(&c.config.env, b'A', Some(b'0')) == Some(b'0'), "C16/clone-equivalent: the clone's environment differs");
        assert!(c.config.detached, "C16/clone-equivalent: the clone lost the detached flag");
        let is_pipe = match c.config.stdout { Redirection::Pipe => true, _ => false };
        assert!(is_pipe, "C16/clone-equivalent: the clone lost the stdout setting");
        // edit the original: the clone must not change
        let y: u8 = kani::any();
        kani::assume(y != 0);
        let e2 = e.arg(one(y)).env(one(b'B'), one(b'z')).env_remove(one(b'A'));
        assert!(c.args.len() == 1, "C16/clone-independent: editing the original changed the clone's arguments");
        assert!(effective(&c.config.env, b'B', None) == Some(v) && effective(&c.config.env, b'A', Some(b'0')) == Some(b'0'), "C16/clone-independent: editing the original changed the clone's environment");
        std::mem::forget((e2, c));
    }

    pub fn any_out_redirection(k: u8) -> Redirection {
        match k {
            0 => Redirection::None,
            1 => Redirection::Pipe,
            _ => Redirection::Merge,
        }
    }

    /// first settings and the idempotent Pipe-after-Pipe are accepted and stored
    #[kani::proof]
    fn h_set_once_ok() {
        let k: u8 = kani::any();
        kani::assume(k < 3);
        let e = Exec::cmd("c").stdout(any_out_redirection(k));
        let ok = match (&e.config.stdout, k) {
            (Redirection::None, 0) | (Redirection::Pipe, 1) | (Redirection::Merge, 2) => true,
            _ => false,
        };
        assert!(ok, "C16/first-setting-stored: the first setting of a stream is not what was requested");
        let e = Exec::cmd("c").stderr(Redirection::Pipe).stderr(Redirection::Pipe).stdin(Redirection::Pipe).stdin(Redirection::Pipe);
        let ok2 = match (&e.config.stderr, &e.config.stdin) {
            (Redirection::Pipe, Redirection::Pipe) => true,
            _ => false,
        };
        assert!(ok2, "C16/pipe-twice-idempotent: requesting a pipe twice is not accepted as the same setting");
        std::mem::forget(e);
    }

    /// a second, different setting must be refused loudly: this harness runs only
    /// the refused combinations and MUST end in the builder's panic
    pub fn set_twice(which: u8, first: u8, second: u8) {
        let e = Exec::cmd("c");
        let e = match which {
            0 => e.stdout(any_out_redirection(first)).stdout(any_out_redirection(second)),
            _ => e.stderr(any_out_redirection(first)).stderr(any_out_redirection(second)),
        };
        std::mem::forget(e);
    }

    #[kani::proof]
    fn h_set_twice_panics() {
        let which: u8 = kani::any();
        let first: u8 = kani::any();
        let second: u8 = kani::any();
        kani::assume(which < 2 && first >= 1 && first < 3 && second < 3);
        // allowed second settings: only Pipe after Pipe
        kani::assume(!(first == 1 && second == 1));
        set_twice(which, first, second);
        // reaching this point means the second setting was accepted
        assert!(false, "C16/second-setting-refused: a second, different setting of an output stream was accepted silently");
    }

    /// input data given to a terminator that cannot deliver it must be refused
    #[kani::proof]
    fn h_stdin_data_refused() {
        let e = Exec::cmd("c").stdin("data");
        let has = e.stdin_data.is_some();
        assert!(has, "C16/stdin-data-kept: input data given to stdin() is not recorded");
        let which: u8 = kani::any();
        kani::assume(which < 2);
        if which == 0 {
            e.check_no_stdin_data("popen");
        } else {
            e.check_no_stdin_data("join");
        }
        assert!(false, "C16/stdin-data-refused: a terminator that cannot deliver input data accepted it silently");
    }
}
