// harnesses (h_comm_raw)
