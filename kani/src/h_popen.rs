// Harnesses living inside `mod popen` (file level): they see Popen's private
// fields, ChildState, setup_streams, get_standard_stream.
#[cfg(kani)]
mod vh_popen {
    use super::*;
    use crate::mk::proc_ as mp;
    use crate::mk::{self, Obj, P};
    use std::os::unix::io::{AsRawFd, FromRawFd};

    /// Stub for `get_standard_stream`: Kani 0.68 cannot compile a
    /// `thread_local!` with a destructor.  Calls the *real*
    /// `make_standard_stream` each time (same descriptor semantics, no cache).
    pub fn gss(which: StandardStream) -> io::Result<Rc<File>> {
        crate::posix::make_standard_stream(which)
    }

    #[derive(Clone, Copy, PartialEq, Eq)]
    pub enum RK {
        None,
        Pipe,
        Merge,
        File,
        RcFile,
    }

    pub fn any_rk() -> RK {
        let k: u8 = kani::any();
        kani::assume(k < 5);
        match k {
            0 => RK::None,
            1 => RK::Pipe,
            2 => RK::Merge,
            3 => RK::File,
            _ => RK::RcFile,
        }
    }

    /// A symbolic stream configuration and the objects it must resolve to.
    pub struct StreamCfg {
        pub kinds: [RK; 3],
        pub rc_shared: bool,
        pub valid: bool,
        pub expect: [Obj; 3],
        /// pipe index (creation order) serving stream i, if piped
        pub pipe_of: [Option<u8>; 3],
    }

    /// Build the three `Redirection`s for `kinds`.  Files are pre-opened in
    /// the model at descriptors 3.. ; distinct k = distinct open file
    /// description.  `first_pipe` = index the next created pipe will get
    /// (the launch-status pipe); stream pipes follow in stdin, stdout, stderr order.
    pub unsafe fn make_streams(kinds: [RK; 3], rc_shared: bool, file_cloexec: bool, first_pipe: u8) -> (StreamCfg, Redirection, Redirection, Redirection) {
        let mut next_fd = match mk::lowest_free(3) {
            Some(f) => f,
            None => 3,
        };
        let mut shared: Option<Rc<File>> = None;
        let mut objs = [Obj::Closed; 3];
        let mut reds: [Option<Redirection>; 3] = [None, None, None];
        let mut i = 0;
        while i < 3 {
            reds[i] = Some(match kinds[i] {
                RK::None => Redirection::None,
                RK::Pipe => Redirection::Pipe,
                RK::Merge => Redirection::Merge,
                RK::File => {
                    mk::open_file_at(next_fd, i as u8, file_cloexec);
                    objs[i] = Obj::File(i as u8);
                    let f = File::from_raw_fd(next_fd as i32);
                    next_fd += 1;
                    Redirection::File(f)
                }
                RK::RcFile => {
                    if rc_shared {
                        if shared.is_none() {
                            mk::open_file_at(next_fd, 9, file_cloexec);
                            shared = Some(Rc::new(File::from_raw_fd(next_fd as i32)));
                            next_fd += 1;
                        }
                        objs[i] = Obj::File(9);
                        Redirection::RcFile(Rc::clone(shared.as_ref().unwrap()))
                    } else {
                        mk::open_file_at(next_fd, 4 + i as u8, file_cloexec);
                        objs[i] = Obj::File(4 + i as u8);
                        let f = Rc::new(File::from_raw_fd(next_fd as i32));
                        next_fd += 1;
                        Redirection::RcFile(f)
                    }
                }
            });
            i += 1;
        }
        // pipes are numbered in creation order: status pipe first
        let mut p = first_pipe + 1;
        let mut pipe_of = [None; 3];
        if kinds[0] == RK::Pipe {
            objs[0] = Obj::PipeR(p);
            pipe_of[0] = Some(p);
            p += 1;
        }
        if kinds[1] == RK::Pipe {
            objs[1] = Obj::PipeW(p);
            pipe_of[1] = Some(p);
            p += 1;
        }
        if kinds[2] == RK::Pipe {
            objs[2] = Obj::PipeW(p);
            pipe_of[2] = Some(p);
        }
        if kinds[0] == RK::None {
            objs[0] = Obj::Std(0);
        }
        if kinds[1] == RK::None {
            objs[1] = Obj::Std(1);
        }
        if kinds[2] == RK::None {
            objs[2] = Obj::Std(2);
        }
        let valid = kinds[0] != RK::Merge && !(kinds[1] == RK::Merge && kinds[2] == RK::Merge);
        if kinds[1] == RK::Merge {
            objs[1] = objs[2];
        }
        if kinds[2] == RK::Merge {
            objs[2] = objs[1];
        }
        let r2 = reds[2].take().unwrap();
        let r1 = reds[1].take().unwrap();
        let r0 = reds[0].take().unwrap();
        (
            StreamCfg {
                kinds,
                rc_shared,
                valid,
                expect: objs,
                pipe_of,
            },
            r0,
            r1,
            r2,
        )
    }

    /// Pre-state: the parent's own standard streams plus the parent ends of up
    /// to two earlier Popens (inductive invariant: they are close-on-exec).
    pub unsafe fn pre_state(earlier: u8) {
        mk::init_std_fds();
        if earlier >= 1 {
            mk::FDT[3] = mk::FdEnt {
                obj: Obj::PipeW(0),
                cloexec: true,
            };
            mk::NPIPES = 1;
        }
        if earlier >= 2 {
            mk::FDT[4] = mk::FdEnt {
                obj: Obj::PipeR(1),
                cloexec: true,
            };
            mk::NPIPES = 2;
        }
    }

    /// A fully symbolic stream configuration.
    pub fn any_kinds() -> [RK; 3] {
        [any_rk(), any_rk(), any_rk()]
    }

    /// Child role: real Popen::create with a symbolic stream configuration runs
    /// through setup_streams / prep_exec / fork(=0) / do_exec to the model exec,
    /// where the wiring (C05), leak (C08) and signal (C18) assertions sit.
    pub unsafe fn spawn_child(kinds: [RK; 3], rc_shared: bool, earlier: u8) {
        mk::reset();
        pre_state(earlier);
        mk::sig::MASK = kani::any();
        mk::sig::SIGPIPE_IGNORED = true;
        let file_cloexec: bool = kani::any();
        let (cfg, r0, r1, r2) = make_streams(kinds, rc_shared, file_cloexec, mk::NPIPES);
        mp::EXPECT_FD = cfg.expect;
        mp::EXPECT_FD_SET = true;
        mp::CHILD_AT_FORK = 1;
        mp::begin_spawn();
        let config = PopenConfig {
            stdin: r0,
            stdout: r1,
            stderr: r2,
            ..Default::default()
        };
        let res = Popen::create(&["/p"], config);
        // Only reachable when no process was forked (the child never returns).
        vcheck!(C07, !mp::IN_CHILD, "C07/child-never-returns: the forked child returned from Popen::create");
        vcheck!(C05, !mp::IN_CHILD, "C05/child-never-returns: the forked child returned from Popen::create");
        vcheck!(C05, !cfg.valid, "C05/valid-config-accepted: a valid stream configuration was refused before fork");
        let logic = match res {
            Err(PopenError::LogicError(_)) => true,
            _ => false,
        };
        vcheck!(C05, logic, "C05/invalid-config-logic-error: an invalid stream configuration did not yield LogicError");
        vcheck!(C05, mp::FORKS == 0, "C05/invalid-config-no-process: a process was started for an invalid stream configuration");
        kani::cover!(!cfg.valid, "COVER/invalid-config-returned");
        std::mem::forget(res);
    }

    #[kani::proof]
    #[kani::stub(get_standard_stream, gss)]
    #[kani::stub(crate::posix::fcntl, crate::mk::fcntl_model)]
    fn h_spawn_child() {
        mk::link_model();
        let earlier: u8 = kani::any();
        kani::assume(earlier <= 2);
        unsafe { spawn_child(any_kinds(), kani::any(), earlier) }
    }

    // ------------------------------------------------------------------
    // Parent role
    // ------------------------------------------------------------------

    pub unsafe fn fd_of(f: &Option<File>) -> usize {
        match f {
            Some(f) => f.as_raw_fd() as usize,
            None => 0,
        }
    }

    /// Parent role: real Popen::create with one stream configuration; fork
    /// returns a pid.  `fault_at` = k: the k-th faultable call (pipe / fcntl /
    /// fork) fails with `injected`; `launch_fails`: the forked child reports
    /// `injected` on the status pipe.  Asserts the parent-side halves of C05,
    /// C07, C08 and the drop clauses of C12.
    pub unsafe fn spawn_parent(kinds: [RK; 3], rc_shared: bool, fault_at: u32, launch_fails: bool, injected: i32, detached: bool) {
        mk::reset();
        pre_state(2);
        let file_cloexec: bool = kani::any();
        let (cfg, r0, r1, r2) = make_streams(kinds, rc_shared, file_cloexec, mk::NPIPES);
        mp::CHILD_AT_FORK = 0;
        mp::begin_spawn();
        if launch_fails {
            mp::KID_LAUNCH_ERRNO[0] = injected;
        }
        mk::FAULT_AT = fault_at;
        mk::FAULT_ERRNO = injected;
        let config = PopenConfig {
            stdin: r0,
            stdout: r1,
            stderr: r2,
            detached,
            ..Default::default()
        };
        let res = Popen::create(&["/p"], config);
        let something_failed = mk::FAULT_FIRED || (launch_fails && mp::FORKS == 1);
        match res {
            Ok(p) => {
                kani::cover!(true, "COVER/parent-ok");
                vcheck!(C05, cfg.valid, "C05/invalid-config-logic-error: an invalid stream configuration did not yield LogicError");
                vcheck!(C07, !something_failed, "C07/ok-iff-started: Popen::create returned a handle although a step of the launch failed");
                vcheck!(C07, mp::FORKS == 1, "C07/ok-iff-started: handle returned without a forked process");
                let running = match p.child_state {
                    ChildState::Running { pid, .. } => pid == 100,
                    _ => false,
                };
                vcheck!(C07, running, "C07/ok-state-running: a fresh handle is not in state Running with the child's pid");
                // C05: a parent-side handle iff piped, and it is the peer end of the child's pipe
                vcheck!(C05, p.stdin.is_some() == (kinds[0] == RK::Pipe), "C05/parent-handle-iff-piped: stdin handle present iff piped");
                vcheck!(C05, p.stdout.is_some() == (kinds[1] == RK::Pipe), "C05/parent-handle-iff-piped: stdout handle present iff piped");
                vcheck!(C05, p.stderr.is_some() == (kinds[2] == RK::Pipe), "C05/parent-handle-iff-piped: stderr handle present iff piped");
                if let (Some(f), Some(pi)) = (p.stdin.as_ref(), cfg.pipe_of[0]) {
                    let e = mk::FDT[f.as_raw_fd() as usize];
                    vcheck!(C05, e.obj == Obj::PipeW(pi), "C05/parent-end-is-peer: Popen.stdin is not the write end of the child's stdin pipe");
                    vcheck!(C08, e.cloexec, "C08/parent-end-cloexec: the parent end of the stdin pipe is inheritable after create");
                }
                if let (Some(f), Some(pi)) = (p.stdout.as_ref(), cfg.pipe_of[1]) {
                    let e = mk::FDT[f.as_raw_fd() as usize];
                    vcheck!(C05, e.obj == Obj::PipeR(pi), "C05/parent-end-is-peer: Popen.stdout is not the read end of the child's stdout pipe");
                    vcheck!(C08, e.cloexec, "C08/parent-end-cloexec: the parent end of the stdout pipe is inheritable after create");
                }
                if let (Some(f), Some(pi)) = (p.stderr.as_ref(), cfg.pipe_of[2]) {
                    let e = mk::FDT[f.as_raw_fd() as usize];
                    vcheck!(C05, e.obj == Obj::PipeR(pi), "C05/parent-end-is-peer: Popen.stderr is not the read end of the child's stderr pipe");
                    vcheck!(C08, e.cloexec, "C08/parent-end-cloexec: the parent end of the stderr pipe is inheritable after create");
                }
                // nothing else of this spawn stays open in the parent: the child ends,
                // the status pipe and the files handed over are closed
                let keep = [fd_of(&p.stdin), fd_of(&p.stdout), fd_of(&p.stderr)];
                let mut i = 5;
                while i < mk::NFD {
                    if mk::FDT[i].obj != Obj::Closed {
                        let kept = i == keep[0] || i == keep[1] || i == keep[2];
                        vcheck!(C08, kept, "C08/child-end-closed-in-parent: after create the parent still holds a descriptor of the spawn that is not one of the exposed parent ends (end-of-file would never propagate)");
                        vcheck!(C07, kept, "C07/no-extra-descriptor: after a successful create the parent holds a descriptor of the spawn that is not exposed on the Popen");
                    }
                    i += 1;
                }
                vcheck!(C05, mk::FDT[0].obj == Obj::Std(0) && mk::FDT[1].obj == Obj::Std(1) && mk::FDT[2].obj == Obj::Std(2), "C05/parent-std-untouched: spawning changed the parent's own standard streams");
                let calls_before = mp::WAITPID_BLOCKING_CALLS;
                drop(p);
                vcheck!(C05, mk::FDT[0].obj == Obj::Std(0) && mk::FDT[1].obj == Obj::Std(1) && mk::FDT[2].obj == Obj::Std(2), "C05/parent-std-untouched: dropping the Popen closed one of the parent's own standard streams");
                vcheck!(C12, detached || mp::KIDS[0].reaped_by_us, "C12/drop-reaps: dropping a non-detached Popen left its child unreaped");
                vcheck!(C12, !detached || (mp::WAITPID_BLOCKING_CALLS == calls_before && !mp::KIDS[0].reaped_by_us), "C12/detached-drop-never-blocks: dropping a detached Popen waited for or reaped the child");
            }
            Err(e) => {
                kani::cover!(launch_fails && mp::FORKS == 1, "COVER/parent-launch-error");
                kani::cover!(mk::FAULT_FIRED && mk::FAULT_KIND == 1, "COVER/parent-fault-pipe");
                kani::cover!(mk::FAULT_FIRED && mk::FAULT_KIND == 2, "COVER/parent-fault-fcntl");
                kani::cover!(mk::FAULT_FIRED && mk::FAULT_KIND == 3, "COVER/parent-fault-fork");
                let is_logic = match e {
                    PopenError::LogicError(_) => true,
                    _ => false,
                };
                vcheck!(C05, cfg.valid || is_logic || mk::FAULT_FIRED, "C05/invalid-config-logic-error: an invalid stream configuration was refused with something else than LogicError");
                vcheck!(C05, cfg.valid || mp::FORKS == 0, "C05/invalid-config-no-process: a process was started for an invalid stream configuration");
                vcheck!(C05, !cfg.valid || something_failed, "C05/valid-config-accepted: a valid stream configuration was refused although nothing failed");
                if cfg.valid {
                    vcheck!(C07, something_failed, "C07/err-iff-failed: Popen::create failed although every step succeeded");
                    let code = match e {
                        PopenError::IoError(ref ioe) => ioe.raw_os_error(),
                        _ => None,
                    };
                    vcheck!(C07, code == Some(injected), "C07/error-carries-os-error: the error does not carry the OS error of the step that failed");
                }
                // no descriptor of the attempt left open, whatever failed
                let mut i = 5;
                while i < mk::NFD {
                    vcheck!(C07, mk::FDT[i].obj == Obj::Closed, "C07/no-descriptor-left: a descriptor opened by (or handed to) the failed attempt is still open in the parent");
                    i += 1;
                }
                vcheck!(C07, mk::FDT[3].obj == Obj::PipeW(0) && mk::FDT[4].obj == Obj::PipeR(1), "C07/unrelated-descriptors-untouched: the failed attempt closed a descriptor it did not open");
                if mp::FORKS == 1 {
                    vcheck!(C07, mp::KIDS[0].st == mp::KidSt::Reaped && mp::KIDS[0].reaped_by_us, "C07/failed-child-reaped: the child of a failed launch was left unreaped (zombie)");
                }
                std::mem::forget(e);
            }
        }
    }

    /// Successful launches, every stream configuration.
    #[kani::proof]
    #[kani::stub(get_standard_stream, gss)]
    #[kani::stub(crate::posix::fcntl, crate::mk::fcntl_model)]
    fn h_spawn_parent() {
        mk::link_model();
        unsafe { spawn_parent(any_kinds(), kani::any(), 0, false, 0, kani::any()) }
    }

    /// Failing launches: every stream configuration x every fault point
    /// (k-th pipe/fcntl/fork call, or a child-side failure reported on the
    /// status pipe) x any errno x detached.
    #[kani::proof]
    #[kani::stub(get_standard_stream, gss)]
    #[kani::stub(crate::posix::fcntl, crate::mk::fcntl_model)]
    fn h_fail_parent() {
        mk::link_model();
        let fault_at: u32 = kani::any();
        kani::assume(fault_at <= 17);
        let launch_fails: bool = kani::any();
        kani::assume(fault_at != 0 || launch_fails);
        unsafe { spawn_parent(any_kinds(), kani::any(), fault_at, launch_fails, mk::any_errno(), kani::any()) }
    }
}
