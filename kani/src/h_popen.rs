// Harnesses living inside `mod popen` (file level): they see Popen's private
// fields, ChildState, setup_streams, get_standard_stream.
#[cfg(kani)]
mod vh_popen {
    use super::*;
    use crate::mk::proc_ as mp;
    use crate::mk::{self, Obj, P};
    use std::os::unix::io::{AsRawFd, FromRawFd};

    /// Stub for `get_standard_stream`: Kani 0.68 cannot compile a
    /// `thread_local!` with a destructor.  Calls the *real*
    /// `make_standard_stream` each time (same descriptor semantics, no cache).
    pub fn gss(which: StandardStream) -> io::Result<Rc<File>> {
        crate::posix::make_standard_stream(which)
    }

    #[derive(Clone, Copy, PartialEq, Eq)]
    pub enum RK {
        None,
        Pipe,
        Merge,
        File,
        RcFile,
    }

    pub fn any_rk() -> RK {
        let k: u8 = kani::any();
        kani::assume(k < 5);
        match k {
            0 => RK::None,
            1 => RK::Pipe,
            2 => RK::Merge,
            3 => RK::File,
            _ => RK::RcFile,
        }
    }

    /// A symbolic stream configuration and the objects it must resolve to.
    pub struct StreamCfg {
        pub kinds: [RK; 3],
        pub rc_shared: bool,
        pub valid: bool,
        pub expect: [Obj; 3],
        /// pipe index (creation order) serving stream i, if piped
        pub pipe_of: [Option<u8>; 3],
    }

    /// Build the three `Redirection`s for `kinds`.  Files are pre-opened in
    /// the model at descriptors 3.. ; distinct k = distinct open file
    /// description.  `first_pipe` = index the next created pipe will get
    /// (the launch-status pipe); stream pipes follow in stdin, stdout, stderr order.
    pub unsafe fn make_streams(kinds: [RK; 3], rc_shared: bool, file_cloexec: bool, first_pipe: u8) -> (StreamCfg, Redirection, Redirection, Redirection) {
        let mut next_fd = match mk::lowest_free(3) {
            Some(f) => f,
            None => 3,
        };
        let mut shared: Option<Rc<File>> = None;
        let mut objs = [Obj::Closed; 3];
        let mut reds: [Option<Redirection>; 3] = [None, None, None];
        let mut i = 0;
        while i < 3 {
            reds[i] = Some(match kinds[i] {
                RK::None => Redirection::None,
                RK::Pipe => Redirection::Pipe,
                RK::Merge => Redirection::Merge,
                RK::File => {
                    mk::open_file_at(next_fd, i as u8, file_cloexec);
                    objs[i] = Obj::File(i as u8);
                    let f = File::from_raw_fd(next_fd as i32);
                    next_fd += 1;
                    Redirection::File(f)
                }
                RK::RcFile => {
                    if rc_shared {
                        if shared.is_none() {
                            mk::open_file_at(next_fd, 9, file_cloexec);
                            shared = Some(Rc::new(File::from_raw_fd(next_fd as i32)));
                            next_fd += 1;
                        }
                        objs[i] = Obj::File(9);
                        Redirection::RcFile(Rc::clone(shared.as_ref().unwrap()))
                    } else {
                        mk::open_file_at(next_fd, 4 + i as u8, file_cloexec);
                        objs[i] = Obj::File(4 + i as u8);
                        let f = Rc::new(File::from_raw_fd(next_fd as i32));
                        next_fd += 1;
                        Redirection::RcFile(f)
                    }
                }
            });
            i += 1;
        }
        // pipes are numbered in creation order: status pipe first
        let mut p = first_pipe + 1;
        let mut pipe_of = [None; 3];
        if kinds[0] == RK::Pipe {
            objs[0] = Obj::PipeR(p);
            pipe_of[0] = Some(p);
            p += 1;
        }
        if kinds[1] == RK::Pipe {
            objs[1] = Obj::PipeW(p);
            pipe_of[1] = Some(p);
            p += 1;
        }
        if kinds[2] == RK::Pipe {
            objs[2] = Obj::PipeW(p);
            pipe_of[2] = Some(p);
        }
        if kinds[0] == RK::None {
            objs[0] = Obj::Std(0);
        }
        if kinds[1] == RK::None {
            objs[1] = Obj::Std(1);
        }
        if kinds[2] == RK::None {
            objs[2] = Obj::Std(2);
        }
        let valid = kinds[0] != RK::Merge && !(kinds[1] == RK::Merge && kinds[2] == RK::Merge);
        if kinds[1] == RK::Merge {
            objs[1] = objs[2];
        }
        if kinds[2] == RK::Merge {
            objs[2] = objs[1];
        }
        let r2 = reds[2].take().unwrap();
        let r1 = reds[1].take().unwrap();
        let r0 = reds[0].take().unwrap();
        (
            StreamCfg {
                kinds,
                rc_shared,
                valid,
                expect: objs,
                pipe_of,
            },
            r0,
            r1,
            r2,
        )
    }

    /// Pre-state: the parent's own standard streams plus the parent ends of up
    /// to two earlier Popens (inductive invariant: they are close-on-exec).
    pub unsafe fn pre_state(earlier: u8) {
        mk::init_std_fds();
        if earlier >= 1 {
            mk::FDT[3] = mk::FdEnt {
                obj: Obj::PipeW(0),
                cloexec: true,
            };
            mk::NPIPES = 1;
        }
        if earlier >= 2 {
            mk::FDT[4] = mk::FdEnt {
                obj: Obj::PipeR(1),
                cloexec: true,
            };
            mk::NPIPES = 2;
        }
    }

    /// Explicit case split: the closure body is symbolically executed once per
    /// value with that value *concrete*.  CBMC's symex only prunes branches whose
    /// guard is syntactically constant; a merged (ite) redirection kind makes it
    /// explore the product of all correlated branches with junk pointers (measured:
    /// out of memory for a single symbolic Pipe/None choice, 3 s per concrete
    /// configuration).  The split keeps the configuration a symbolic variable
    /// decided by the solver, but every control-relevant value constant per case.
    #[inline(never)]
    pub fn split_rk<F: Fn(RK)>(f: F) {
        let k: u8 = kani::any();
        kani::assume(k < 5);
        match k {
            0 => f(RK::None),
            1 => f(RK::Pipe),
            2 => f(RK::Merge),
            3 => f(RK::File),
            _ => f(RK::RcFile),
        }
    }

    #[inline(never)]
    pub fn split_bool<F: Fn(bool)>(f: F) {
        if kani::any() {
            f(true)
        } else {
            f(false)
        }
    }

    pub fn n_rc(kinds: [RK; 3]) -> usize {
        (kinds[0] == RK::RcFile) as usize + (kinds[1] == RK::RcFile) as usize + (kinds[2] == RK::RcFile) as usize
    }

    /// Run `f` for every stream configuration whose stdin kind is `s0`.
    pub fn for_all_cfg<F: Fn([RK; 3], bool)>(s0: RK, f: F) {
        split_rk(|s1| {
            split_rk(|s2| {
                let kinds = [s0, s1, s2];
                if n_rc(kinds) >= 2 {
                    split_bool(|sh| f(kinds, sh));
                } else {
                    f(kinds, false);
                }
            })
        })
    }

    /// Child role: real Popen::create with one stream configuration runs
    /// through setup_streams / prep_exec / fork(=0) / do_exec to the model
    /// exec, where the wiring (C05), leak (C08) and signal (C18) assertions sit.
    pub unsafe fn spawn_child(p: P, kinds: [RK; 3], rc_shared: bool, earlier: u8) {
        mk::reset();
        mk::FOCUS = p;
        pre_state(earlier);
        mk::sig::MASK = kani::any();
        mk::sig::SIGPIPE_IGNORED = true;
        let file_cloexec: bool = kani::any();
        let (cfg, r0, r1, r2) = make_streams(kinds, rc_shared, file_cloexec, mk::NPIPES);
        mp::EXPECT_FD = cfg.expect;
        mp::EXPECT_FD_SET = true;
        mp::CHILD_AT_FORK = 1;
        mp::begin_spawn();
        let config = PopenConfig {
            stdin: r0,
            stdout: r1,
            stderr: r2,
            ..Default::default()
        };
        let res = Popen::create(&["/p"], config);
        // Only reachable when no process was forked (the child never returns).
        vcheck!(C07, !mp::IN_CHILD, "C07/child-never-returns: the forked child returned from Popen::create");
        vcheck!(C05, !mp::IN_CHILD, "C05/child-never-returns: the forked child returned from Popen::create");
        vcheck!(C05, !cfg.valid, "C05/valid-config-accepted: a valid stream configuration was refused before fork");
        let logic = match res {
            Err(PopenError::LogicError(_)) => true,
            _ => false,
        };
        vcheck!(C05, logic, "C05/invalid-config-logic-error: an invalid stream configuration did not yield LogicError");
        vcheck!(C05, mp::FORKS == 0, "C05/invalid-config-no-process: a process was started for an invalid stream configuration");
        kani::cover!(!cfg.valid, "COVER/invalid-config-returned");
        std::mem::forget(res);
    }

    macro_rules! spawn_child_harness {
        ($name:ident, $p:ident, $s0:expr, $earlier:expr) => {
            #[kani::proof]
            #[kani::stub(get_standard_stream, gss)]
            #[kani::stub(crate::posix::fcntl, crate::mk::fcntl_model)]
            fn $name() {
                mk::link_model();
                for_all_cfg($s0, |kinds, sh| unsafe { spawn_child(P::$p, kinds, sh, $earlier) });
            }
        };
    }

    spawn_child_harness!(h_spawn_child_c05_none, C05, RK::None, 0);
    spawn_child_harness!(h_spawn_child_c05_pipe, C05, RK::Pipe, 0);
    spawn_child_harness!(h_spawn_child_c05_file, C05, RK::File, 0);
    spawn_child_harness!(h_spawn_child_c05_rc, C05, RK::RcFile, 0);
    spawn_child_harness!(h_spawn_child_c05_merge, C05, RK::Merge, 0);
}
