// Harnesses living inside `mod popen` (file level): they see Popen's private
// fields, ChildState, setup_streams, get_standard_stream.
#[cfg(kani)]
mod vh_popen {
    use super::*;
    use crate::mk::proc_ as mp;
    use crate::mk::{self, Obj, P};
    use std::os::unix::io::{AsRawFd, FromRawFd};

    /// Stub for `get_standard_stream`: Kani 0.68 cannot compile a
    /// `thread_local!` with a destructor.  Calls the *real*
    /// `make_standard_stream` each time (same descriptor semantics, no cache).
    pub fn gss(which: StandardStream) -> io::Result<Rc<File>> {
        crate::posix::make_standard_stream(which)
    }

    #[derive(Clone, Copy, PartialEq, Eq)]
    pub enum RK {
        None,
        Pipe,
        Merge,
        File,
        RcFile,
    }

    pub fn any_rk() -> RK {
        let k: u8 = kani::any();
        kani::assume(k < 5);
        match k {
            0 => RK::None,
            1 => RK::Pipe,
            2 => RK::Merge,
            3 => RK::File,
            _ => RK::RcFile,
        }
    }

    /// A symbolic stream configuration and the objects it must resolve to.
    pub struct StreamCfg {
        pub kinds: [RK; 3],
        pub rc_shared: bool,
        pub valid: bool,
        pub expect: [Obj; 3],
        /// pipe index (creation order) serving stream i, if piped
        pub pipe_of: [Option<u8>; 3],
    }

    /// Build the three `Redirection`s for `kinds`.  Files are pre-opened in
    /// the model at descriptors 3.. ; distinct k = distinct open file
    /// description.  `first_pipe` = index the next created pipe will get
    /// (the launch-status pipe); stream pipes follow in stdin, stdout, stderr order.
    pub unsafe fn make_streams(kinds: [RK; 3], rc_shared: bool, file_cloexec: bool, first_pipe: u8) -> (StreamCfg, Redirection, Redirection, Redirection) {
        let mut next_fd = match mk::lowest_free(3) {
            Some(f) => f,
            None => 3,
        };
        let mut shared: Option<Rc<File>> = None;
        let mut objs = [Obj::Closed; 3];
        let mut reds: [Option<Redirection>; 3] = [None, None, None];
        let mut i = 0;
        while i < 3 {
            reds[i] = Some(match kinds[i] {
                RK::None => Redirection::None,
                RK::Pipe => Redirection::Pipe,
                RK::Merge => Redirection::Merge,
                RK::File => {
                    mk::open_file_at(next_fd, i as u8, file_cloexec);
                    objs[i] = Obj::File(i as u8);
                    let f = File::from_raw_fd(next_fd as i32);
                    next_fd += 1;
                    Redirection::File(f)
                }
                RK::RcFile => {
                    if rc_shared {
                        if shared.is_none() {
                            mk::open_file_at(next_fd, 9, file_cloexec);
                            shared = Some(Rc::new(File::from_raw_fd(next_fd as i32)));
                            next_fd += 1;
                        }
                        objs[i] = Obj::File(9);
                        Redirection::RcFile(Rc::clone(shared.as_ref().unwrap()))
                    } else {
                        mk::open_file_at(next_fd, 4 + i as u8, file_cloexec);
                        objs[i] = Obj::File(4 + i as u8);
                        let f = Rc::new(File::from_raw_fd(next_fd as i32));
                        next_fd += 1;
                        Redirection::RcFile(f)
                    }
                }
            });
            i += 1;
        }
        // pipes are numbered in creation order: status pipe first
        let mut p = first_pipe + 1;
        let mut pipe_of = [None; 3];
        if kinds[0] == RK::Pipe {
            objs[0] = Obj::PipeR(p);
            pipe_of[0] = Some(p);
            p += 1;
        }
        if kinds[1] == RK::Pipe {
            objs[1] = Obj::PipeW(p);
            pipe_of[1] = Some(p);
            p += 1;
        }
        if kinds[2] == RK::Pipe {
            objs[2] = Obj::PipeW(p);
            pipe_of[2] = Some(p);
        }
        if kinds[0] == RK::None {
            objs[0] = Obj::Std(0);
        }
        if kinds[1] == RK::None {
            objs[1] = Obj::Std(1);
        }
        if kinds[2] == RK::None {
            objs[2] = Obj::Std(2);
        }
        let valid = kinds[0] != RK::Merge && !(kinds[1] == RK::Merge && kinds[2] == RK::Merge);
        if kinds[1] == RK::Merge {
            objs[1] = objs[2];
        }
        if kinds[2] == RK::Merge {
            objs[2] = objs[1];
        }
        let r2 = reds[2].take().unwrap();
        let r1 = reds[1].take().unwrap();
        let r0 = reds[0].take().unwrap();
        (
            StreamCfg {
                kinds,
                rc_shared,
                valid,
                expect: objs,
                pipe_of,
            },
            r0,
            r1,
            r2,
        )
    }

    /// Pre-state: the parent's own standard streams plus the parent ends of up
    /// to two earlier Popens (inductive invariant: they are close-on-exec).
    pub unsafe fn pre_state(earlier: u8) {
        mk::init_std_fds();
        if earlier >= 1 {
            mk::FDT[3] = mk::FdEnt {
                obj: Obj::PipeW(0),
                cloexec: true,
            };
            mk::NPIPES = 1;
        }
        if earlier >= 2 {
            mk::FDT[4] = mk::FdEnt {
                obj: Obj::PipeR(1),
                cloexec: true,
            };
            mk::NPIPES = 2;
        }
    }

    /// A fully symbolic stream configuration.
    pub fn any_kinds() -> [RK; 3] {
        [any_rk(), any_rk(), any_rk()]
    }

    /// Child role: real Popen::create with a symbolic stream configuration runs
    /// through setup_streams / prep_exec / fork(=0) / do_exec to the model exec,
    /// where the wiring (C05), leak (C08) and signal (C18) assertions sit.
    pub unsafe fn spawn_child(kinds: [RK; 3], rc_shared: bool, earlier: u8) {
        mk::reset();
        pre_state(earlier);
        mk::sig::MASK = kani::any();
        mk::sig::SIGPIPE_IGNORED = true;
        let file_cloexec: bool = kani::any();
        let (cfg, r0, r1, r2) = make_streams(kinds, rc_shared, file_cloexec, mk::NPIPES);
        mp::EXPECT_FD = cfg.expect;
        mp::EXPECT_FD_SET = true;
        mp::CHILD_AT_FORK = 1;
        mp::begin_spawn();
        let config = PopenConfig {
            stdin: r0,
            stdout: r1,
            stderr: r2,
            ..Default::default()
        };
        let res = Popen::create(&["/p"], config);
        // Only reachable when no process was forked (the child never returns).
        vcheck!(C07, !mp::IN_CHILD, "C07/child-never-returns: the forked child returned from Popen::create");
        vcheck!(C05, !mp::IN_CHILD, "C05/child-never-returns: the forked child returned from Popen::create");
        vcheck!(C05, !cfg.valid, "C05/valid-config-accepted: a valid stream configuration was refused before fork");
        let logic = match res {
            Err(PopenError::LogicError(_)) => true,
            _ => false,
        };
        vcheck!(C05, logic, "C05/invalid-config-logic-error: an invalid stream configuration did not yield LogicError");
        vcheck!(C05, mp::FORKS == 0, "C05/invalid-config-no-process: a process was started for an invalid stream configuration");
        kani::cover!(!cfg.valid, "COVER/invalid-config-returned");
        std::mem::forget(res);
    }

    #[kani::proof]
    #[kani::stub(get_standard_stream, gss)]
    #[kani::stub(crate::posix::fcntl, crate::mk::fcntl_model)]
    fn h_spawn_child() {
        mk::link_model();
        let earlier: u8 = kani::any();
        kani::assume(earlier <= 2);
        unsafe { spawn_child(any_kinds(), kani::any(), earlier) }
    }

    // ------------------------------------------------------------------
    // Parent role
    // ------------------------------------------------------------------

    pub unsafe fn fd_of(f: &Option<File>) -> usize {
        match f {
            Some(f) => f.as_raw_fd() as usize,
            None => 0,
        }
    }

    /// Parent role: real Popen::create with one stream configuration; fork
    /// returns a pid.  `fault_at` = k: the k-th faultable call (pipe / fcntl /
    /// fork) fails with `injected`; `launch_fails`: the forked child reports
    /// `injected` on the status pipe.  Asserts the parent-side halves of C05,
    /// C07, C08 and the drop clauses of C12.
    pub unsafe fn spawn_parent(kinds: [RK; 3], rc_shared: bool, fault_at: u32, launch_fails: bool, injected: i32, detached: bool) {
        mk::reset();
        pre_state(2);
        let file_cloexec: bool = kani::any();
        let (cfg, r0, r1, r2) = make_streams(kinds, rc_shared, file_cloexec, mk::NPIPES);
        mp::CHILD_AT_FORK = 0;
        mp::begin_spawn();
        if launch_fails {
            mp::KID_LAUNCH_ERRNO[0] = injected;
        }
        mk::FAULT_AT = fault_at;
        mk::FAULT_ERRNO = injected;
        let config = PopenConfig {
            stdin: r0,
            stdout: r1,
            stderr: r2,
            detached,
            // fork returns a pid here, so the child-side setpgid(0,0) is not executed; a
            // parent-side setpgid(child, child) would be (see the model: EACCES once the child exec'd)
            setpgid: kani::any(),
            ..Default::default()
        };
        let res = Popen::create(&["/p"], config);
        let something_failed = mk::FAULT_FIRED || (launch_fails && mp::FORKS == 1);
        match res {
            Ok(p) => {
                kani::cover!(true, "COVER/parent-ok");
                vcheck!(C05, cfg.valid, "C05/invalid-config-logic-error: an invalid stream configuration did not yield LogicError");
                vcheck!(C07, !something_failed, "C07/ok-iff-started: Popen::create returned a handle although a step of the launch failed");
                vcheck!(C07, mp::FORKS == 1, "C07/ok-iff-started: handle returned without a forked process");
                let running = match p.child_state {
                    ChildState::Running { pid, .. } => pid == 100,
                    _ => false,
                };
                vcheck!(C07, running, "C07/ok-state-running: a fresh handle is not in state Running with the child's pid");
                // C05: a parent-side handle iff piped, and it is the peer end of the child's pipe
                vcheck!(C05, p.stdin.is_some() == (kinds[0] == RK::Pipe), "C05/parent-handle-iff-piped: stdin handle present iff piped");
                vcheck!(C05, p.stdout.is_some() == (kinds[1] == RK::Pipe), "C05/parent-handle-iff-piped: stdout handle present iff piped");
                vcheck!(C05, p.stderr.is_some() == (kinds[2] == RK::Pipe), "C05/parent-handle-iff-piped: stderr handle present iff piped");
                if let (Some(f), Some(pi)) = (p.stdin.as_ref(), cfg.pipe_of[0]) {
                    let e = mk::FDT[f.as_raw_fd() as usize];
                    vcheck!(C05, e.obj == Obj::PipeW(pi), "C05/parent-end-is-peer: Popen.stdin is not the write end of the child's stdin pipe");
                    vcheck!(C08, e.cloexec, "C08/parent-end-cloexec: the parent end of the stdin pipe is inheritable after create");
                }
                if let (Some(f), Some(pi)) = (p.stdout.as_ref(), cfg.pipe_of[1]) {
                    let e = mk::FDT[f.as_raw_fd() as usize];
                    vcheck!(C05, e.obj == Obj::PipeR(pi), "C05/parent-end-is-peer: Popen.stdout is not the read end of the child's stdout pipe");
                    vcheck!(C08, e.cloexec, "C08/parent-end-cloexec: the parent end of the stdout pipe is inheritable after create");
                }
                if let (Some(f), Some(pi)) = (p.stderr.as_ref(), cfg.pipe_of[2]) {
                    let e = mk::FDT[f.as_raw_fd() as usize];
                    vcheck!(C05, e.obj == Obj::PipeR(pi), "C05/parent-end-is-peer: Popen.stderr is not the read end of the child's stderr pipe");
                    vcheck!(C08, e.cloexec, "C08/parent-end-cloexec: the parent end of the stderr pipe is inheritable after create");
                }
                // nothing else of this spawn stays open in the parent: the child ends,
                // the status pipe and the files handed over are closed
                let keep = [fd_of(&p.stdin), fd_of(&p.stdout), fd_of(&p.stderr)];
                let mut i = 5;
                while i < mk::NFD {
                    if mk::FDT[i].obj != Obj::Closed {
                        let kept = i == keep[0] || i == keep[1] || i == keep[2];
                        vcheck!(C08, kept, "C08/child-end-closed-in-parent: after create the parent still holds a descriptor of the spawn that is not one of the exposed parent ends (end-of-file would never propagate)");
                        vcheck!(C07, kept, "C07/no-extra-descriptor: after a successful create the parent holds a descriptor of the spawn that is not exposed on the Popen");
                    }
                    i += 1;
                }
                vcheck!(C05, mk::FDT[0].obj == Obj::Std(0) && mk::FDT[1].obj == Obj::Std(1) && mk::FDT[2].obj == Obj::Std(2), "C05/parent-std-untouched: spawning changed the parent's own standard streams");
                let calls_before = mp::WAITPID_BLOCKING_CALLS;
                drop(p);
                vcheck!(C05, mk::FDT[0].obj == Obj::Std(0) && mk::FDT[1].obj == Obj::Std(1) && mk::FDT[2].obj == Obj::Std(2), "C05/parent-std-untouched: dropping the Popen closed one of the parent's own standard streams");
                vcheck!(C12, detached || mp::KIDS[0].reaped_by_us, "C12/drop-reaps: dropping a non-detached Popen left its child unreaped");
                vcheck!(C12, !detached || (mp::WAITPID_BLOCKING_CALLS == calls_before && !mp::KIDS[0].reaped_by_us), "C12/detached-drop-never-blocks: dropping a detached Popen waited for or reaped the child");
            }
            Err(e) => {
                kani::cover!(launch_fails && mp::FORKS == 1, "COVER/parent-launch-error");
                kani::cover!(mk::FAULT_FIRED && mk::FAULT_KIND == 1, "COVER/parent-fault-pipe");
                kani::cover!(mk::FAULT_FIRED && mk::FAULT_KIND == 2, "COVER/parent-fault-fcntl");
                kani::cover!(mk::FAULT_FIRED && mk::FAULT_KIND == 3, "COVER/parent-fault-fork");
                let is_logic = match e {
                    PopenError::LogicError(_) => true,
                    _ => false,
                };
                vcheck!(C05, cfg.valid || is_logic || mk::FAULT_FIRED, "C05/invalid-config-logic-error: an invalid stream configuration was refused with something else than LogicError");
                vcheck!(C05, cfg.valid || mp::FORKS == 0, "C05/invalid-config-no-process: a process was started for an invalid stream configuration");
                vcheck!(C05, !cfg.valid || something_failed, "C05/valid-config-accepted: a valid stream configuration was refused although nothing failed");
                if cfg.valid {
                    vcheck!(C07, something_failed, "C07/err-iff-failed: Popen::create failed although every step succeeded");
                    let code = match e {
                        PopenError::IoError(ref ioe) => ioe.raw_os_error(),
                        _ => None,
                    };
                    vcheck!(C07, code == Some(injected), "C07/error-carries-os-error: the error does not carry the OS error of the step that failed");
                }
                // no descriptor of the attempt left open, whatever failed
                let mut i = 5;
                while i < mk::NFD {
                    vcheck!(C07, mk::FDT[i].obj == Obj::Closed, "C07/no-descriptor-left: a descriptor opened by (or handed to) the failed attempt is still open in the parent");
                    i += 1;
                }
                vcheck!(C07, mk::FDT[3].obj == Obj::PipeW(0) && mk::FDT[4].obj == Obj::PipeR(1), "C07/unrelated-descriptors-untouched: the failed attempt closed a descriptor it did not open");
                if mp::FORKS == 1 {
                    vcheck!(C07, mp::KIDS[0].st == mp::KidSt::Reaped && mp::KIDS[0].reaped_by_us, "C07/failed-child-reaped: the child of a failed launch was left unreaped (zombie)");
                }
                std::mem::forget(e);
            }
        }
    }

    /// Successful launches, every stream configuration.
    #[kani::proof]
    #[kani::stub(get_standard_stream, gss)]
    #[kani::stub(crate::posix::fcntl, crate::mk::fcntl_model)]
    fn h_spawn_parent() {
        mk::link_model();
        unsafe { spawn_parent(any_kinds(), kani::any(), 0, false, 0, kani::any()) }
    }

    /// Failing launches: every stream configuration x every fault point
    /// (k-th pipe/fcntl/fork call, or a child-side failure reported on the
    /// status pipe) x any errno x detached.
    #[kani::proof]
    #[kani::stub(get_standard_stream, gss)]
    #[kani::stub(crate::posix::fcntl, crate::mk::fcntl_model)]
    fn h_fail_parent() {
        mk::link_model();
        let fault_at: u32 = kani::any();
        kani::assume(fault_at <= 17);
        let launch_fails: bool = kani::any();
        kani::assume(fault_at != 0 || launch_fails);
        unsafe { spawn_parent(any_kinds(), kani::any(), fault_at, launch_fails, mk::any_errno(), kani::any()) }
    }

    // ------------------------------------------------------------------
    // Child role with failing steps (C07 child half, C17)
    // ------------------------------------------------------------------

    /// Child role; the k-th child-side step (chdir, dup2 x3, sigemptyset,
    /// pthread_sigmask, signal, setuid, setgid, setpgid, exec) fails with a
    /// symbolic errno, for symbolic k; or no step fails and exec starts.
    pub unsafe fn fail_child(kinds: [RK; 3], rc_shared: bool) {
        mk::reset();
        pre_state(2);
        let file_cloexec: bool = kani::any();
        let (cfg, r0, r1, r2) = make_streams(kinds, rc_shared, file_cloexec, mk::NPIPES);
        kani::assume(cfg.valid);
        mp::EXPECT_FD = cfg.expect;
        mp::EXPECT_FD_SET = true;
        mp::CHILD_AT_FORK = 1;
        mp::begin_spawn();
        let k: u32 = kani::any();
        kani::assume(k <= 9);
        mp::CHILD_FAIL_AT = k;
        mp::CHILD_FAIL_ERRNO = mk::any_errno();
        let with_cwd: bool = kani::any();
        let with_uid: bool = kani::any();
        let with_gid: bool = kani::any();
        let config = PopenConfig {
            stdin: r0,
            stdout: r1,
            stderr: r2,
            cwd: if with_cwd { Some(OsString::from("/d")) } else { None },
            setuid: if with_uid { Some(kani::any()) } else { None },
            setgid: if with_gid { Some(kani::any()) } else { None },
            setpgid: kani::any(),
            ..Default::default()
        };
        let res = Popen::create(&["/p"], config);
        vcheck!(C07, !mp::IN_CHILD, "C07/child-never-returns: the forked child returned from Popen::create");
        vcheck!(C07, false, "C07/valid-launch-forks: a valid configuration without parent-side faults returned before fork");
        std::mem::forget(res);
    }

    #[kani::proof]
    #[kani::stub(get_standard_stream, gss)]
    #[kani::stub(crate::posix::fcntl, crate::mk::fcntl_model)]
    fn h_fail_child() {
        mk::link_model();
        unsafe { fail_child(any_kinds(), kani::any()) }
    }

    // ------------------------------------------------------------------
    // C06: argv / program / environment / cwd / identity
    // ------------------------------------------------------------------
    use std::os::unix::ffi::OsStringExt;

    /// a symbolic byte string of the given concrete length (<= 3) over all bytes
    /// (NUL allowed iff `allow_nul`); returns the string and whether it contains a NUL.
    /// Lengths are concrete per harness: a symbolic length makes every Vec/CString
    /// operation on the string symbolic-sized (measured: SAT back end out of memory).
    pub unsafe fn any_str(store: &mut [u8; mp::SMAX], len_out: &mut usize, l: usize, allow_nul: bool) -> (OsString, bool) {
        let b0: u8 = kani::any();
        let b1: u8 = kani::any();
        let b2: u8 = kani::any();
        if !allow_nul {
            kani::assume(b0 != 0 && b1 != 0 && b2 != 0);
        }
        store[0] = b0;
        store[1] = b1;
        store[2] = b2;
        let (v, nul) = if l == 0 {
            (Vec::new(), false)
        } else if l == 1 {
            (vec![b0], b0 == 0)
        } else if l == 2 {
            (vec![b0, b1], b0 == 0 || b1 == 0)
        } else {
            (vec![b0, b1, b2], b0 == 0 || b1 == 0 || b2 == 0)
        };
        *len_out = l;
        (OsString::from_vec(v), nul)
    }

    pub unsafe fn child_role_plain() {
        mk::reset();
        pre_state(0);
        mp::CHILD_AT_FORK = 1;
        mp::begin_spawn();
    }

    /// one argument: symbolic bytes of concrete length `l` (sym) or the constant "zz"[..l]
    pub unsafe fn arg(store: &mut [u8; mp::SMAX], len_out: &mut usize, l: usize, sym: bool, allow_nul: bool) -> (OsString, bool) {
        if sym {
            any_str(store, len_out, l, allow_nul)
        } else {
            let mut v = Vec::new();
            let mut i = 0;
            while i < l {
                store[i] = b'z';
                v.push(b'z');
                i += 1;
            }
            *len_out = l;
            (OsString::from_vec(v), false)
        }
    }

    /// argv = ["/p", a1, a2][..n]; optional executable override "/x".  At most one
    /// of a1/a2 is symbolic per harness (two symbolic arguments exhaust the SAT
    /// back end's memory; measured).
    pub unsafe fn argv_case(l1: usize, s1: bool, l2: usize, s2: bool, n: usize) {
        child_role_plain();
        mp::EXP_ARGV[0][0] = b'/';
        mp::EXP_ARGV[0][1] = b'p';
        mp::EXP_ARGV_LEN[0] = 2;
        let (a1, _) = arg(&mut mp::EXP_ARGV[1], &mut mp::EXP_ARGV_LEN[1], l1, s1, false);
        let (a2, _) = arg(&mut mp::EXP_ARGV[2], &mut mp::EXP_ARGV_LEN[2], l2, s2, false);
        mp::EXP_ARGC = n;
        mp::EXP_ARGV_SET = true;
        let argv: Vec<OsString> = if n == 1 {
            vec![OsString::from("/p")]
        } else if n == 2 {
            vec![OsString::from("/p"), a1]
        } else {
            vec![OsString::from("/p"), a1, a2]
        };
        let with_exe: bool = kani::any();
        mp::EXP_PATH_SET = true;
        mp::EXP_PATH[0] = b'/';
        mp::EXP_PATH[1] = if with_exe { b'x' } else { b'p' };
        mp::EXP_PATH_LEN = 2;
        mp::EXP_ENV_MODE = 1;
        mp::EXP_CWD_MODE = 1;
        let config = PopenConfig {
            executable: if with_exe { Some(OsString::from("/x")) } else { None },
            ..Default::default()
        };
        let res = Popen::create(&argv, config);
        vcheck!(C06, false, "C06/launch-proceeds: a NUL-free request did not reach exec");
        std::mem::forget(res);
    }

    /// A NUL byte anywhere in an argument is rejected with EINVAL, nothing is started.
    pub unsafe fn argv_nul_case(l1: usize, s1: bool, l2: usize, s2: bool, n: usize) {
        child_role_plain();
        let mut t1 = [0u8; mp::SMAX];
        let mut t2 = [0u8; mp::SMAX];
        let (mut x1, mut x2) = (0, 0);
        let (a1, n1) = arg(&mut t1, &mut x1, l1, s1, true);
        let (a2, n2) = arg(&mut t2, &mut x2, l2, s2, true);
        kani::assume(n1 || (n == 3 && n2));
        let argv = if n == 2 { vec![OsString::from("/p"), a1] } else { vec![OsString::from("/p"), a1, a2] };
        let res = Popen::create(&argv, PopenConfig::default());
        vcheck!(C06, mp::FORKS == 0, "C06/nul-rejected: an argument containing NUL did not prevent the launch");
        let einval = match res {
            Err(PopenError::IoError(ref e)) => e.raw_os_error() == Some(libc::EINVAL),
            _ => false,
        };
        vcheck!(C06, einval, "C06/nul-rejected: an argument containing NUL was not rejected with an error");
        std::mem::forget(res);
    }

    macro_rules! argv_harness {
        ($name:ident, $f:ident, $l1:expr, $s1:expr, $l2:expr, $s2:expr, $n:expr) => {
            #[kani::proof]
            #[kani::stub(get_standard_stream, gss)]
            #[kani::stub(crate::posix::fcntl, crate::mk::fcntl_model)]
            fn $name() {
                mk::link_model();
                unsafe { $f($l1, $s1, $l2, $s2, $n) }
            }
        };
    }
    argv_harness!(h_argv_s2, argv_case, 2, true, 0, false, 2);
    argv_harness!(h_argv_s1, argv_case, 1, true, 0, false, 2);
    argv_harness!(h_argv_e, argv_case, 0, true, 0, false, 2);
    argv_harness!(h_argv_none, argv_case, 0, false, 0, false, 1);
    argv_harness!(h_argv_nul_s2, argv_nul_case, 2, true, 0, false, 2);
    argv_harness!(h_argv_nul_s1, argv_nul_case, 1, true, 0, false, 2);
    // thorough tier: three arguments (needs > 14 GB for the SAT back end)
    argv_harness!(h_argv_s2z, argv_case, 2, true, 2, false, 3);
    argv_harness!(h_argv_es1, argv_case, 0, false, 1, true, 3);

    /// Environment end to end: two (name, value) pairs with concrete names (a
    /// symbolic name makes SipHash/hashbrown probing symbolic: timeout), values
    /// one arbitrary non-NUL byte or empty.
    pub unsafe fn env_case(k1: u8, k2: u8) {
        child_role_plain();
        let v1: u8 = kani::any();
        let v2: u8 = kani::any();
        kani::assume(v1 != 0 && v2 != 0);
        let e2: bool = kani::any(); // second value empty
        let val2 = if e2 { Vec::new() } else { vec![v2] };
        let env = vec![
            (OsString::from_vec(vec![k1]), OsString::from_vec(vec![v1])),
            (OsString::from_vec(vec![k2]), OsString::from_vec(val2)),
        ];
        // reference: last value per name
        mp::EXP_ENV_MODE = 2;
        mp::EXP_ENV[0][0] = k2;
        mp::EXP_ENV[0][1] = b'=';
        mp::EXP_ENV[0][2] = v2;
        mp::EXP_ENV_LEN[0] = if e2 { 2 } else { 3 };
        if k1 != k2 {
            mp::EXP_ENV[1][0] = k1;
            mp::EXP_ENV[1][1] = b'=';
            mp::EXP_ENV[1][2] = v1;
            mp::EXP_ENV_LEN[1] = 3;
            mp::EXP_ENVC = 2;
        } else {
            mp::EXP_ENVC = 1;
        }
        let config = PopenConfig {
            env: Some(env),
            ..Default::default()
        };
        let res = Popen::create(&["/p"], config);
        vcheck!(C06, false, "C06/launch-proceeds: a NUL-free request did not reach exec");
        std::mem::forget(res);
    }

    #[kani::proof]
    #[kani::stub(get_standard_stream, gss)]
    #[kani::stub(crate::posix::fcntl, crate::mk::fcntl_model)]
    fn h_env_dup() {
        mk::link_model();
        unsafe { env_case(b'a', b'a') }
    }

    #[kani::proof]
    #[kani::stub(get_standard_stream, gss)]
    #[kani::stub(crate::posix::fcntl, crate::mk::fcntl_model)]
    fn h_env_two() {
        mk::link_model();
        unsafe { env_case(b'a', b'b') }
    }

    /// cwd and identity: symbolic uid/gid options, setpgid, cwd of 1..=2 symbolic bytes.
    #[kani::proof]
    #[kani::stub(get_standard_stream, gss)]
    #[kani::stub(crate::posix::fcntl, crate::mk::fcntl_model)]
    fn h_ident() {
        mk::link_model();
        unsafe {
            child_role_plain();
            let with_uid: bool = kani::any();
            let with_gid: bool = kani::any();
            let uid: u32 = kani::any();
            let gid: u32 = kani::any();
            kani::assume(uid != 0);
            let pg: bool = kani::any();
            mp::EXP_ID_SET = true;
            mp::EXP_UID = if with_uid { Some(uid) } else { None };
            mp::EXP_GID = if with_gid { Some(gid) } else { None };
            mp::EXP_PGID = pg;
            let with_cwd: bool = kani::any();
            let c0: u8 = kani::any();
            let c1: u8 = kani::any();
            kani::assume(c0 != 0 && c1 != 0);
            mp::EXP_CWD_MODE = if with_cwd { 2 } else { 1 };
            mp::EXP_CWD[0] = c0;
            mp::EXP_CWD[1] = c1;
            mp::EXP_CWD_LEN = 2;
            let config = PopenConfig {
                cwd: if with_cwd { Some(OsString::from_vec(vec![c0, c1])) } else { None },
                setuid: mp::EXP_UID,
                setgid: mp::EXP_GID,
                setpgid: pg,
                ..Default::default()
            };
            let res = Popen::create(&["/p"], config);
            vcheck!(C06, false, "C06/launch-proceeds: a valid request did not reach exec");
            std::mem::forget(res);
        }
    }

    // ------------------------------------------------------------------
    // Lifecycle: C09 (status truth and finality), C10 (signals), C11 (poll), C12 (drop)
    // ------------------------------------------------------------------
    use crate::os_common::ExitStatus;
    use crate::unix::PopenExt;

    /// the status the library must report for wait-status word `w`
    pub fn truth(w: i32) -> ExitStatus {
        if w & 0x7f == 0 {
            ExitStatus::Exited(((w >> 8) & 0xff) as u32)
        } else {
            ExitStatus::Signaled((w & 0x7f) as u8)
        }
    }

    /// a wait-status word of a terminated child: exit(c), c in 0..=255, or
    /// fatal signal s in 1..=127 with or without core flag
    pub fn any_status_word() -> i32 {
        let exited: bool = kani::any();
        let c: u8 = kani::any();
        if exited {
            (c as i32) << 8
        } else {
            let s = c & 0x7f;
            kani::assume(s != 0 && s != 0x7f);
            let core: bool = kani::any();
            (s as i32) | if core { 0x80 } else { 0 }
        }
    }

    pub fn any_exit_status() -> ExitStatus {
        let k: u8 = kani::any();
        kani::assume(k < 4);
        match k {
            0 => ExitStatus::Exited(kani::any()),
            1 => ExitStatus::Signaled(kani::any()),
            2 => ExitStatus::Other(kani::any()),
            _ => ExitStatus::Undetermined,
        }
    }

    pub struct Life {
        pub p: Popen,
        pub finished: bool,
        pub stored: ExitStatus,
        pub word: i32,
    }

    /// Any state satisfying invariant I: Finished(s) => the model child is
    /// reaped (by us with s = truth, or by someone else with s = Undetermined);
    /// Running => this Popen has not reaped it (it may be running, a zombie, or
    /// reaped by someone else).
    /// Whatever the platform-specific part of `Running` carries (`()` on the
    /// unchanged tree), every value of it is a state the invariant allows: a
    /// Popen created with any PopenConfig (setpgid, ...) reaches it.
    pub trait AnyExt {
        fn any_ext() -> Self;
    }
    impl AnyExt for () {
        fn any_ext() {}
    }
    macro_rules! any_ext_prim {
        ($($t:ty),*) => { $(impl AnyExt for $t { fn any_ext() -> $t { kani::any() } })* };
    }
    any_ext_prim!(bool, u8, u16, u32, u64, usize, i8, i16, i32, i64, isize);
    impl<T: AnyExt> AnyExt for Option<T> {
        fn any_ext() -> Option<T> {
            if kani::any() { Some(T::any_ext()) } else { None }
        }
    }

    pub unsafe fn any_life_state() -> Life {
        mk::reset();
        mk::init_std_fds();
        let word = any_status_word();
        let finished: bool = kani::any();
        let stored = if finished {
            if kani::any() {
                truth(word)
            } else {
                ExitStatus::Undetermined
            }
        } else {
            ExitStatus::Undetermined
        };
        let st = if finished {
            mp::KidSt::Reaped
        } else {
            let k: u8 = kani::any();
            kani::assume(k < 3);
            match k {
                0 => mp::KidSt::Running,
                1 => mp::KidSt::Zombie,
                _ => mp::KidSt::Reaped,
            }
        };
        mp::KIDS[0] = mp::Kid {
            pid: 100,
            st,
            status: word,
            reaped_by_us: finished && stored != ExitStatus::Undetermined,
            holds: 0,
            status_pipe: 0xff,
        };
        mp::NKIDS = 1;
        mp::KIDS_MAY_EXIT = kani::any();
        mp::FOREIGN_REAPER = kani::any();
        let p = Popen {
            stdin: None,
            stdout: None,
            stderr: None,
            child_state: if finished {
                ChildState::Finished(stored)
            } else {
                ChildState::Running { pid: 100, ext: AnyExt::any_ext() }
            },
            detached: kani::any(),
        };
        Life { p, finished, stored, word }
    }

    /// invariant I plus the projections
    pub unsafe fn check_invariant(l: &Life) {
        match l.p.child_state {
            ChildState::Finished(s) => {
                vcheck!(C09, mp::KIDS[0].st == mp::KidSt::Reaped, "C09/finished-implies-reaped: a status is stored while the child has not been reaped");
                let ok = if mp::KIDS[0].reaped_by_us { s == truth(l.word) } else { s == ExitStatus::Undetermined };
                vcheck!(C09, ok, "C09/status-is-truth: the stored status is neither the child's real termination cause nor Undetermined-after-foreign-reap");
                vcheck!(C09, l.p.pid().is_none(), "C09/pid-absent-when-finished: pid() present although the status is known");
                vcheck!(C09, l.p.exit_status() == Some(s), "C09/exit-status-projection: exit_status() differs from the stored status");
            }
            ChildState::Running { pid, .. } => {
                vcheck!(C09, !mp::KIDS[0].reaped_by_us, "C09/running-implies-not-reaped: still Running although this Popen reaped the child");
                vcheck!(C09, pid == 100 && l.p.pid() == Some(100), "C09/pid-stable: the pid changed");
                vcheck!(C09, l.p.exit_status().is_none(), "C09/no-status-while-running: exit_status() present while Running");
            }
            ChildState::Preparing => {
                vcheck!(C09, false, "C09/no-preparing: state Preparing after construction");
            }
        }
    }

    /// one API operation; returns nothing, asserts everything
    pub unsafe fn life_op(l: &mut Life, op: u8) {
        let was_finished = match l.p.child_state {
            ChildState::Finished(_) => true,
            _ => false,
        };
        let stored = match l.p.child_state {
            ChildState::Finished(s) => Some(s),
            _ => None,
        };
        let w0 = mp::WAITPID_CALLS;
        let b0 = mp::WAITPID_BLOCKING_CALLS;
        let k0 = mp::KILL_CALLS;
        let s0 = mk::time::SLEEPS;
        let mut got: Option<Option<ExitStatus>> = None; // Some(x) = a query returned x
        match op {
            0 => {
                let r = l.p.poll();
                vcheck!(C11, mk::time::SLEEPS == s0, "C11/poll-never-sleeps: poll() slept");
                vcheck!(C11, mp::WAITPID_BLOCKING_CALLS == b0, "C11/poll-never-blocks: poll() issued a blocking wait");
                got = Some(r);
            }
            1 => {
                mp::EINTR_INJECTED = false;
                mp::WAIT_EINTR_ARMED = kani::any();
                let r = l.p.wait();
                mp::WAIT_EINTR_ARMED = false;
                match r {
                    Ok(s) => got = Some(Some(s)),
                    Err(e) => {
                        vcheck!(C09, mp::EINTR_INJECTED, "C09/wait-no-error: wait() returned an error (a foreign reap must yield Undetermined)");
                        std::mem::forget(e);
                    }
                }
            }
            2 => {
                let r = l.p.wait_timeout(Duration::from_secs(0));
                match r {
                    Ok(s) => got = Some(s),
                    Err(e) => {
                        vcheck!(C09, false, "C09/wait-no-error: wait_timeout() returned an error");
                        std::mem::forget(e);
                    }
                }
            }
            3 => {
                let sig: i32 = kani::any();
                mp::KILL_RESULT_ERRNO = if kani::any() { 0 } else { libc::EPERM };
                let r = l.p.send_signal(sig);
                signal_checks(was_finished, k0, sig, &r);
                std::mem::forget(r);
            }
            4 => {
                let r = l.p.terminate();
                signal_checks(was_finished, k0, libc::SIGTERM, &r);
                std::mem::forget(r);
            }
            5 => {
                let r = l.p.kill();
                signal_checks(was_finished, k0, libc::SIGKILL, &r);
                std::mem::forget(r);
            }
            6 => {
                l.p.detach();
            }
            _ => {
                let _ = l.p.pid();
                let _ = l.p.exit_status();
            }
        }
        if was_finished {
            vcheck!(C09, mp::WAITPID_CALLS == w0 && mp::KILL_CALLS == k0, "C09/no-syscall-once-final: an operating-system call was made about a child whose status is already known");
            if let Some(g) = got {
                vcheck!(C09, g == stored, "C09/final-status-stable: a query returned something else than the status reported before");
            }
        }
        if let Some(Some(s)) = got {
            let ok = if mp::KIDS[0].reaped_by_us { s == truth(l.word) } else { s == ExitStatus::Undetermined };
            vcheck!(C09, ok, "C09/reported-status-is-truth: a query reported a status that is not the child's real termination cause");
            vcheck!(C09, mp::KIDS[0].st == mp::KidSt::Reaped, "C09/no-status-while-child-runs: a status was reported while the child is still running or unreaped");
        }
        if op == 1 {
            vcheck!(C09, (got.is_some() && got != Some(None)) || mp::EINTR_INJECTED, "C09/wait-returns-status: wait() returned without a status");
            kani::cover!(mp::EINTR_INJECTED, "COVER/wait-interrupted");
        }
        check_invariant(l);
    }

    pub unsafe fn signal_checks(was_finished: bool, k0: u32, sig: i32, r: &io::Result<()>) {
        if was_finished {
            vcheck!(C10, mp::KILL_CALLS == k0, "C10/no-signal-once-final: a signal was sent although the child's termination had been observed");
            vcheck!(C10, r.is_ok(), "C10/ok-once-final: signalling a finished child did not return success");
        } else {
            vcheck!(C10, mp::KILL_CALLS == k0 + 1, "C10/exactly-one-signal: not exactly one kill() for one signalling call on a live child");
            vcheck!(C10, mp::LAST_KILL_PID == 100, "C10/only-the-child: the signal was sent to a pid other than the child's");
            vcheck!(C10, mp::LAST_KILL_SIG == sig, "C10/requested-signal: the signal sent is not the requested one");
            let expect_ok = mp::KILL_RESULT_ERRNO == 0 && mp::KIDS[0].st != mp::KidSt::Reaped;
            vcheck!(C10, r.is_ok() == expect_ok, "C10/result-passed-through: the result of kill() was not passed through");
        }
    }

    #[kani::proof]
    fn h_life_step() {
        mk::link_model();
        unsafe {
            let mut l = any_life_state();
            let op: u8 = kani::any();
            kani::assume(op <= 7);
            life_op(&mut l, op);
            kani::cover!(op == 1 && !l.finished, "COVER/wait-on-running");
            std::mem::forget(l);
        }
    }

    #[kani::proof]
    fn h_life_seq() {
        mk::link_model();
        unsafe {
            let mut l = any_life_state();
            kani::assume(!l.finished);
            let op1: u8 = kani::any();
            let op2: u8 = kani::any();
            let op3: u8 = kani::any();
            kani::assume(op1 <= 7 && op2 <= 7 && op3 <= 7);
            life_op(&mut l, op1);
            life_op(&mut l, op2);
            life_op(&mut l, op3);
            std::mem::forget(l);
        }
    }

    /// Drop: a non-detached Popen reaps its child; a detached one never blocks and never reaps.
    #[kani::proof]
    fn h_life_drop() {
        mk::link_model();
        unsafe {
            let l = any_life_state();
            let detached = l.p.detached;
            let was_finished = l.finished;
            let b0 = mp::WAITPID_BLOCKING_CALLS;
            let w0 = mp::WAITPID_CALLS;
            let by_us0 = mp::KIDS[0].reaped_by_us;
            let Life { p, .. } = l;
            drop(p);
            if !was_finished {
                vcheck!(C12, detached || mp::KIDS[0].st == mp::KidSt::Reaped, "C12/drop-reaps: dropping a non-detached Popen left its child unreaped");
                vcheck!(C12, !detached || (mp::WAITPID_CALLS == w0 && mp::KIDS[0].reaped_by_us == by_us0), "C12/detached-drop-never-blocks: dropping a detached Popen waited for or reaped the child");
            } else {
                vcheck!(C12, mp::WAITPID_CALLS == w0, "C12/finished-drop-no-wait: dropping a Popen whose status is known made a wait call");
                vcheck!(C09, mp::WAITPID_CALLS == w0, "C09/no-syscall-once-final: drop made a wait call about a child whose status is already known");
            }
            let _ = b0;
        }
    }

    // ------------------------------------------------------------------
    // C11: wait_timeout timing on the virtual clock
    // ------------------------------------------------------------------
    pub static mut DL_S: i64 = 0;
    pub static mut DL_NS: i64 = 0;
    pub static mut PREV_SLEEP_NS: i64 = 0;
    pub static mut MAX_SLEEPS: u32 = 0;

    /// called by the model at every sleep request
    pub unsafe fn on_sleep(s: i64, ns: i64) {
        // requested sleep as nanoseconds (all sleeps here are < 1 s, asserted)
        vcheck!(C11, s == 0 && ns <= 100_000_000, "C11/sleep-capped: a back-off sleep longer than 100 ms (exit would be noticed late)");
        // never sleep past the deadline: now + sleep <= deadline
        let mut es = mk::time::NOW_S + s;
        let mut en = mk::time::NOW_NS + ns;
        if en >= 1_000_000_000 {
            en -= 1_000_000_000;
            es += 1;
        }
        let past = es > DL_S || (es == DL_S && en > DL_NS);
        vcheck!(C11, !past, "C11/no-oversleep: a sleep extends past the deadline (still-running would be reported late)");
        // no busy-wait: at least 1 ms, or exactly the remaining time
        let exactly_remaining = es == DL_S && en == DL_NS;
        vcheck!(C11, (s == 0 && ns >= 1_000_000) || s > 0 || exactly_remaining, "C11/no-busy-wait: a sleep shorter than 1 ms that does not end at the deadline (spinning)");
        // back-off doubles (or is capped / clipped)
        let doubled = ns == 2 * PREV_SLEEP_NS || ns == 100_000_000 || exactly_remaining || PREV_SLEEP_NS == 0;
        vcheck!(C11, doubled, "C11/backoff-doubles: consecutive sleeps are not 1,2,4,...,100,100 ms (clipped at the deadline)");
        PREV_SLEEP_NS = ns;
        // bound the trace: the child has exited by the MAX_SLEEPS-th sleep
        if MAX_SLEEPS != 0 && mk::time::SLEEPS >= MAX_SLEEPS {
            kani::assume(mp::KIDS[0].st != mp::KidSt::Running);
        }
    }

    pub unsafe fn wait_timeout_case(d: Duration, max_sleeps: u32) {
        let mut l = any_life_state();
        mk::time::NOW_S = kani::any();
        mk::time::NOW_NS = kani::any();
        kani::assume(mk::time::NOW_S >= 0 && mk::time::NOW_S < (1 << 40));
        kani::assume(mk::time::NOW_NS >= 0 && mk::time::NOW_NS < 1_000_000_000);
        mk::time::DRIFT_MAX_NS = 0;
        mk::time::AT_SLEEP = Some(on_sleep);
        PREV_SLEEP_NS = 0;
        MAX_SLEEPS = max_sleeps;
        // deadline = now + d
        DL_S = mk::time::NOW_S + d.as_secs() as i64;
        DL_NS = mk::time::NOW_NS + d.subsec_nanos() as i64;
        if DL_NS >= 1_000_000_000 {
            DL_NS -= 1_000_000_000;
            DL_S += 1;
        }
        let w0 = mp::WAITPID_CALLS;
        let c0 = mk::time::CLOCK_READS;
        let s0 = mk::time::SLEEPS;
        let r = l.p.wait_timeout(d);
        match r {
            Ok(None) => {
                kani::cover!(true, "COVER/wait-timeout-expired");
                vcheck!(C11, mk::time::now_ge(DL_S, DL_NS), "C11/none-not-early: 'still running' reported before the duration elapsed");
                vcheck!(C11, !l.finished, "C11/known-status-immediately: None although the status was already known");
                // 'still running' must come from a status check made after the last sleep: a child
                // that exited during that sleep would otherwise be reported as running at the deadline
                vcheck!(C11, l.finished || mp::WAITPID_CALLS - w0 == (mk::time::SLEEPS - s0) + 1, "C11/none-is-fresh: 'still running' reported without a status check after the last sleep");
            }
            Ok(Some(s)) => {
                kani::cover!(!l.finished, "COVER/wait-timeout-exited");
                vcheck!(C09, mp::KIDS[0].st == mp::KidSt::Reaped, "C09/no-status-while-child-runs: a status was reported while the child is still running or unreaped");
                let _ = s;
            }
            Err(e) => {
                vcheck!(C11, false, "C11/no-error: wait_timeout returned an error");
                std::mem::forget(e);
            }
        }
        if l.finished {
            vcheck!(C11, mp::WAITPID_CALLS == w0 && mk::time::CLOCK_READS == c0 && mk::time::SLEEPS == s0, "C11/known-status-immediately: system calls were made although the status was already known");
        }
        // bounded number of status checks: one per sleep plus the first
        vcheck!(C11, mp::WAITPID_CALLS - w0 <= (mk::time::SLEEPS - s0) + 1, "C11/one-check-per-sleep: more status checks than sleeps + 1 (spinning)");
        vcheck!(C11, mp::WAITPID_BLOCKING_CALLS == 0, "C11/never-blocks: wait_timeout issued a blocking wait");
        check_invariant(&l);
        std::mem::forget(l);
    }

    /// d in [0, 20 ms]: doubling phase 1,2,4,8 ms and the clipped last sleep; the
    /// child exits at any point or never.  (Duration::new, not from_millis: a
    /// 64-bit division of a symbolic value stalls the SAT back end.)
    #[kani::proof]
    fn h_wait_small() {
        mk::link_model();
        unsafe {
            let ns: u32 = kani::any();
            kani::assume(ns <= 20_000_000);
            wait_timeout_case(Duration::new(0, ns), 0);
        }
    }

    /// thorough: d in [0, 420 ms]: the whole doubling phase 1..64 ms and three
    /// steady-state 100 ms iterations.
    #[kani::proof]
    fn h_wait_small_t() {
        mk::link_model();
        unsafe {
            let ns: u32 = kani::any();
            kani::assume(ns <= 420_000_000);
            wait_timeout_case(Duration::new(0, ns), 0);
        }
    }

    /// d up to 2^40 s: the child exits within the first 4 back-off intervals.
    #[kani::proof]
    fn h_wait_large() {
        mk::link_model();
        unsafe {
            let s: u64 = kani::any();
            let ns: u32 = kani::any();
            kani::assume(s >= 1 && s < (1 << 40) && ns < 1_000_000_000);
            wait_timeout_case(Duration::new(s, ns), 4);
        }
    }

    /// thorough: the child exits within the first 9 back-off intervals.
    #[kani::proof]
    fn h_wait_large_t() {
        mk::link_model();
        unsafe {
            let s: u64 = kani::any();
            let ns: u32 = kani::any();
            kani::assume(s >= 1 && s < (1 << 40) && ns < 1_000_000_000);
            wait_timeout_case(Duration::new(s, ns), 9);
        }
    }

    // ------------------------------------------------------------------
    // C17: no allocation between fork and exec (allocation observer)
    // ------------------------------------------------------------------
    use std::alloc::{GlobalAlloc, Layout, System};

    pub unsafe fn obs_alloc(layout: Layout) -> *mut u8 {
        System.alloc(layout)
    }
    pub unsafe fn obs_alloc_zeroed(layout: Layout) -> *mut u8 {
        System.alloc_zeroed(layout)
    }
    pub unsafe fn obs_realloc(ptr: *mut u8, layout: Layout, new_size: usize) -> *mut u8 {
        System.realloc(ptr, layout, new_size)
    }

    /// The observer itself must see std's containers allocate AND grow, or C17 is dead.
    #[kani::proof]
    fn h_alloc_witness() {
        unsafe {
            let s0 = mp::VK_ALLOCS;
            let v = vec![1u8, 2, 3];
            let a1 = mp::VK_ALLOCS;
            let b = Box::new(7u32);
            let a2 = mp::VK_ALLOCS;
            let s = std::ffi::CString::new("ab").unwrap();
            let a3 = mp::VK_ALLOCS;
            let r = Rc::new(5u8);
            let a4 = mp::VK_ALLOCS;
            let mut g: Vec<u8> = Vec::with_capacity(4);
            let a5 = mp::VK_ALLOCS;
            g.extend_from_slice(b"dddd");
            let a6 = mp::VK_ALLOCS;
            g.extend_from_slice(b"/");
            let a7 = mp::VK_ALLOCS;
            assert!(a1 > s0 && a2 > a1 && a3 > a2 && a4 > a3 && a5 > a4, "C17/observer-alive: the allocation observer does not see Vec/Box/CString/Rc allocations");
            assert!(a6 == a5, "C17/observer-exact: the observer counted an allocation where none happens (write within capacity)");
            assert!(a7 > a6, "C17/observer-sees-growth: the observer does not see a Vec growing beyond its capacity (realloc)");
            std::mem::forget((v, b, s, r, g));
        }
    }

    /// A working directory containing NUL is refused by std before any system call
    /// (an error without errno): the child must still report and exit without allocating.
    #[kani::proof]
    #[kani::stub(get_standard_stream, gss)]
    #[kani::stub(crate::posix::fcntl, crate::mk::fcntl_model)]
    fn h_alloc_nulcwd() {
        mk::link_model();
        unsafe {
            child_role_plain();
            mp::EXPECT_STD_REFUSAL = true;
            let config = PopenConfig {
                cwd: Some(OsString::from_vec(vec![b'a', 0, b'b'])),
                ..Default::default()
            };
            let res = Popen::create(&["/p"], config);
            vcheck!(C07, !mp::IN_CHILD, "C07/child-never-returns: the forked child returned from Popen::create");
            vcheck!(C17, !mp::IN_CHILD, "C17/child-never-returns: the forked child returned from Popen::create (it would run the caller's code)");
            std::mem::forget(res);
        }
    }

    /// Child role with the observer on: success path and every failing step.
    #[kani::proof]
    #[kani::stub(get_standard_stream, gss)]
    #[kani::stub(crate::posix::fcntl, crate::mk::fcntl_model)]
    fn h_alloc_child() {
        mk::link_model();
        unsafe { fail_child(any_kinds(), kani::any()) }
    }

    /// Two operations: a query, then a signalling call.  Once a query has seen
    /// ECHILD (child reaped by someone else) no signal may be sent any more.
    #[kani::proof]
    fn h_life_pair() {
        mk::link_model();
        unsafe {
            let mut l = any_life_state();
            kani::assume(!l.finished);
            let op1: u8 = kani::any();
            kani::assume(op1 <= 2);
            let op2: u8 = kani::any();
            kani::assume(op2 >= 3 && op2 <= 5);
            life_op(&mut l, op1);
            kani::cover!(mp::ECHILD_SEEN, "COVER/foreign-reap-observed");
            life_op(&mut l, op2);
            std::mem::forget(l);
        }
    }

    /// quick variant: poll() after a foreign reap, then terminate()
    #[kani::proof]
    fn h_life_pair_q() {
        mk::link_model();
        unsafe {
            let mut l = any_life_state();
            kani::assume(!l.finished);
            life_op(&mut l, 0);
            kani::cover!(mp::ECHILD_SEEN, "COVER/foreign-reap-observed");
            life_op(&mut l, 4);
            std::mem::forget(l);
        }
    }

    /// C08, multi-threaded clause as a boundary invariant: at every system-call
    /// boundary of the spawning thread (parent role) every open pipe end created
    /// by the spawn is close-on-exec, so that a fork+exec issued by another thread
    /// at that instant cannot inherit it.  Known finding: pipe() followed by fcntl().
    #[kani::proof]
    #[kani::stub(get_standard_stream, gss)]
    #[kani::stub(crate::posix::fcntl, crate::mk::fcntl_model)]
    fn h_spawn_boundary_kf() {
        mk::link_model();
        unsafe {
            mk::reset();
            pre_state(2);
            let (cfg, r0, r1, r2) = make_streams([RK::Pipe, RK::Pipe, RK::None], false, true, mk::NPIPES);
            mp::begin_spawn();
            mp::BOUNDARY_CLOEXEC = true;
            let config = PopenConfig { stdin: r0, stdout: r1, stderr: r2, ..Default::default() };
            let res = Popen::create(&["/p"], config);
            mp::BOUNDARY_CLOEXEC = false;
            kani::cover!(res.is_ok(), "COVER/parent-ok");
            std::mem::forget(res);
            let _ = cfg;
        }
    }

    /// The executable override decides the lookup, whatever argv[0] looks like:
    /// executable in {"/x", "x"} x argv[0] in {"/p", "p"} with PATH = "d".
    pub unsafe fn exe_override_case(exe_slash: bool, arg_slash: bool) {
        {
            child_role_plain();
            mk::env::PATH_SET = true;
            mk::env::PATH_VAL[0] = b'd';
            mk::env::PATH_VAL[1] = 0;
            mp::EXP_PATH_SET = true;
            if exe_slash {
                mp::EXP_PATH[0] = b'/';
                mp::EXP_PATH[1] = b'x';
                mp::EXP_PATH_LEN = 2;
            } else {
                mp::EXP_PATH[0] = b'd';
                mp::EXP_PATH[1] = b'/';
                mp::EXP_PATH[2] = b'x';
                mp::EXP_PATH_LEN = 3;
            }
            mp::EXP_ARGV_SET = true;
            mp::EXP_ARGC = 1;
            if arg_slash {
                mp::EXP_ARGV[0][0] = b'/';
                mp::EXP_ARGV[0][1] = b'p';
                mp::EXP_ARGV_LEN[0] = 2;
            } else {
                mp::EXP_ARGV[0][0] = b'p';
                mp::EXP_ARGV_LEN[0] = 1;
            }
            let config = PopenConfig {
                executable: Some(OsString::from(if exe_slash { "/x" } else { "x" })),
                ..Default::default()
            };
            let res = Popen::create(&[if arg_slash { "/p" } else { "p" }], config);
            vcheck!(C06, false, "C06/launch-proceeds: a valid request did not reach exec");
            std::mem::forget(res);
        }
    }

    macro_rules! exe_override_harness {
        ($name:ident, $e:expr, $a:expr) => {
            #[kani::proof]
            #[kani::stub(get_standard_stream, gss)]
            #[kani::stub(crate::posix::fcntl, crate::mk::fcntl_model)]
            #[kani::stub(std::env::var_os, crate::posix::vh_posix::var_os_model)]
            fn $name() {
                mk::link_model();
                unsafe { exe_override_case($e, $a) }
            }
        };
    }
    exe_override_harness!(h_exe_override_sb, true, false);
    exe_override_harness!(h_exe_override_bs, false, true);
    exe_override_harness!(h_exe_override_bb, false, false);

    /// One operation, then drop: whatever was done with the handle before, a
    /// non-detached Popen leaves no unreaped child behind when it goes away.
    #[kani::proof]
    fn h_life_op_drop() {
        mk::link_model();
        unsafe {
            let mut l = any_life_state();
            let op: u8 = kani::any();
            kani::assume(op <= 7 && op != 6);
            life_op(&mut l, op);
            let detached = l.p.detached;
            let Life { p, .. } = l;
            drop(p);
            vcheck!(C12, detached || mp::KIDS[0].st == mp::KidSt::Reaped, "C12/drop-reaps: after an operation on the handle, dropping the non-detached Popen left its child unreaped (zombie)");
            kani::cover!(op == 5, "COVER/kill-then-drop");
        }
    }

    /// The whole back-off schedule with concrete times: d = 10 s from t = 0, the
    /// child exits at any of the first 10 status checks (or later): sleeps must be
    /// 1, 2, 4, ..., 64, 100, 100, ... ms.
    #[kani::proof]
    fn h_wait_backoff() {
        mk::link_model();
        unsafe {
            let mut l = any_life_state();
            kani::assume(!l.finished);
            mk::time::NOW_S = 0;
            mk::time::NOW_NS = 0;
            mk::time::AT_SLEEP = Some(on_sleep);
            PREV_SLEEP_NS = 0;
            MAX_SLEEPS = 10;
            DL_S = 10;
            DL_NS = 0;
            let r = l.p.wait_timeout(Duration::new(10, 0));
            kani::cover!(mk::time::SLEEPS >= 9, "COVER/steady-state-reached");
            match r {
                Ok(Some(_)) => {
                    vcheck!(C11, mp::KIDS[0].st == mp::KidSt::Reaped, "C11/status-only-after-exit: a status was reported while the child is still running");
                }
                Ok(None) => {
                    vcheck!(C11, false, "C11/none-not-early: 'still running' reported long before the duration elapsed");
                }
                Err(e) => std::mem::forget(e),
            }
            std::mem::forget(l);
        }
    }
}
