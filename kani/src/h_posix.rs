// Harnesses living inside `mod posix`: they see split_path, PrepExec, CVec.
#[cfg(kani)]
mod vh_posix {
    use super::*;
    use crate::mk;
    use crate::mk::proc_ as mp;
    use std::os::unix::ffi::OsStringExt;

    pub const PMAX: usize = 5;

    /// reference tokenizer: the non-empty maximal runs of non-':' bytes of p[..n], in order
    /// -> (start, len) of up to 3 entries
    pub fn ref_entries(p: &[u8; PMAX], n: usize) -> ([(usize, usize); 3], usize) {
        let mut out = [(0usize, 0usize); 3];
        let mut cnt = 0;
        let mut i = 0;
        let mut start = 0;
        while i <= PMAX {
            if i <= n {
                let at_end = i == n;
                if at_end || p[i] == b':' {
                    if i > start && cnt < 3 {
                        out[cnt] = (start, i - start);
                        cnt += 1;
                    }
                    start = i + 1;
                }
            }
            i += 1;
        }
        (out, cnt)
    }

    /// split_path(p) == reference, piece by piece, for every p of length n <= 5
    /// over all byte values.
    #[kani::proof]
    fn h_split() {
        let p: [u8; PMAX] = kani::any();
        let n: usize = kani::any();
        kani::assume(n <= PMAX);
        let (want, cnt) = ref_entries(&p, n);
        let mut it = split_path(OsStr::from_bytes(&p[..n]));
        let mut k = 0;
        while k < 3 {
            let got = it.next();
            if k < cnt {
                let (s, l) = want[k];
                let ok = match got {
                    Some(piece) => {
                        let b = piece.as_bytes();
                        let mut same = b.len() == l;
                        let mut j = 0;
                        while j < PMAX {
                            if same && j < l && b[j] != p[s + j] {
                                same = false;
                            }
                            j += 1;
                        }
                        same
                    }
                    None => false,
                };
                assert!(ok, "C15/split-path-entries: PATH tokenizer does not yield the non-empty entries in order");
            } else {
                assert!(got.is_none(), "C15/split-path-no-extra: PATH tokenizer yields an entry that is not a non-empty run between colons");
            }
            k += 1;
        }
        kani::cover!(cnt == 3, "COVER/three-path-entries");
        kani::cover!(cnt == 0 && n > 0, "COVER/only-empty-entries");
    }

    // expected candidates, computed by the harness from the reference tokenizer
    pub static mut CAND: [[u8; mp::PATHMAX]; 3] = [[0; mp::PATHMAX]; 3];
    pub static mut CAND_LEN: [usize; 3] = [0; 3];
    pub static mut NCAND: usize = 0;

    pub unsafe fn on_exec_attempt() {
        // called by the model for the attempt that STARTS; failed attempts are checked below
    }

    /// the k-th recorded exec attempt must be the k-th expected candidate
    pub unsafe fn check_attempts() {
        let mut k = 0;
        while k < 3 {
            if k < mp::EXEC_ATTEMPTS {
                let mut same = k < NCAND && mp::EXEC_PATH_LEN[k] == CAND_LEN[k];
                let mut j = 0;
                while j < mp::PATHMAX {
                    if same && j < CAND_LEN[k] && mp::EXEC_PATH[k][j] != CAND[k][j] {
                        same = false;
                    }
                    j += 1;
                }
                vcheck!(C15, same, "C15/candidate-order: an exec attempt is not the next <entry>/<name> candidate in PATH order (or a candidate was skipped, repeated or invented)");
            }
            k += 1;
        }
    }

    /// Program lookup through the real prep_exec: command name of 1..=2 bytes over
    /// {'/', 'c'}, PATH unset or of exactly `n` symbolic bytes over {':', 'd', '/'};
    /// every candidate's fate symbolic (starts / ENOENT / EACCES / ENOTDIR).
    ///
    /// The *shape* (which positions of PATH are ':', whether PATH is set, the
    /// command-name form) is concrete per call and case-split by the caller: with
    /// symbolic separators every entry length, buffer size and memcpy becomes
    /// symbolic (measured: SAT back end out of memory even for a 1-byte PATH).
    /// Every candidate's fate stays symbolic.
    pub unsafe fn lookup_case(n: usize, colon_mask: u8, path_set: bool, c0: u8, c1: u8, two_byte_cmd: bool, via_prep_exec: bool) {
        mk::reset();
        mk::init_std_fds();
        mp::IN_CHILD = true; // the closure returned by prep_exec runs after fork
        let cmd: Vec<u8> = if two_byte_cmd { vec![c0, c1] } else { vec![c0] };
        let has_slash = c0 == b'/' || (two_byte_cmd && c1 == b'/');
        let mut p = [0u8; PMAX];
        let mut i = 0;
        while i < PMAX {
            if i < n {
                let x: u8 = if colon_mask & (1 << i) != 0 {
                    b':'
                } else {
                    // concrete: a symbolic non-separator byte still makes the
                    // tokenizer's `c == b':'` test symbolic for symex; arbitrary
                    // byte values are covered by h_split
                    b'd'
                };
                p[i] = x;
                mk::env::PATH_VAL[i] = x;
            }
            i += 1;
        }
        mk::env::PATH_VAL[n] = 0;
        mk::env::PATH_SET = path_set;
        let search = !has_slash && mk::env::PATH_SET && n > 0;
        // expected candidates
        if search {
            let (ents, cnt) = ref_entries(&p, n);
            NCAND = cnt;
            let mut k = 0;
            while k < 3 {
                if k < cnt {
                    let (s, l) = ents[k];
                    let mut j = 0;
                    while j < PMAX {
                        if j < l {
                            CAND[k][j] = p[s + j];
                        }
                        j += 1;
                    }
                    CAND[k][l] = b'/';
                    CAND[k][l + 1] = c0;
                    if two_byte_cmd {
                        CAND[k][l + 2] = c1;
                    }
                    CAND_LEN[k] = l + 1 + cmd.len();
                }
                k += 1;
            }
        } else {
            NCAND = 1;
            CAND[0][0] = c0;
            if two_byte_cmd {
                CAND[0][1] = c1;
            }
            CAND_LEN[0] = cmd.len();
        }
        // each candidate's fate
        let mut k = 0;
        while k < 3 {
            let f: u8 = kani::any();
            kani::assume(f < 4);
            mp::EXEC_VERDICT[k] = match f {
                0 => 0,
                1 => libc::ENOENT,
                2 => libc::EACCES,
                _ => libc::ENOTDIR,
            };
            k += 1;
        }
        mp::AT_EXEC = Some(check_attempts);
        let cmd_os = OsString::from_vec(cmd);
        let args = [OsString::from("x")];
        let res = if via_prep_exec {
            // the search decision itself (slash / PATH unset / PATH empty) through the real prep_exec
            match prep_exec(&cmd_os, &args, None::<&[OsString]>) {
                Ok(f) => f(),
                Err(e) => {
                    vcheck!(C15, false, "C15/prep-succeeds: preparing a NUL-free command failed");
                    std::mem::forget(e);
                    return;
                }
            }
        } else {
            // the lookup proper: PrepExec built directly with the PATH value
            let argvec = match CVec::new(&args) {
                Ok(v) => v,
                Err(e) => {
                    std::mem::forget(e);
                    return;
                }
            };
            let sp = if search { Some(OsString::from_vec(p[..n].to_vec())) } else { None };
            PrepExec::new(cmd_os, argvec, None, sp).exec()
        };
        // only reachable when no candidate started
        check_attempts();
        kani::cover!(search && NCAND == 0, "COVER/path-of-only-empty-entries");
        kani::cover!(search && NCAND == 2, "COVER/two-candidates-all-fail");
        kani::cover!(!search, "COVER/no-search");
        vcheck!(C15, mp::EXEC_ATTEMPTS == NCAND, "C15/all-candidates-tried: the lookup stopped before trying every candidate although none started");
        match res {
            Ok(()) => {
                vcheck!(C15, false, "C15/never-ok-without-exec: the lookup returned success although no program image was started (the child would fall through into the caller's code)");
            }
            Err(e) => {
                let code = e.raw_os_error();
                let last = if NCAND > 0 { Some(mp::EXEC_VERDICT[NCAND - 1]) } else { None };
                vcheck!(C15, NCAND == 0 || code == last, "C15/os-error-of-last-candidate: the error returned is not the operating-system error of the last candidate tried");
                vcheck!(C15, code.is_some() && code != Some(0), "C15/launch-fails-with-os-error: the launch failed without an operating-system error");
                std::mem::forget(e);
            }
        }
    }

    /// all colon masks of an n-byte PATH, each with the shape concrete
    pub unsafe fn lookup_all_masks(n: usize, c0: u8, c1: u8, two: bool) {
        let m: u8 = kani::any();
        kani::assume((m as usize) < (1usize << n));
        let mut k: u8 = 0;
        while (k as usize) < (1usize << n) {
            if m == k {
                lookup_case(n, k, true, c0, c1, two, false);
            }
            k += 1;
        }
    }

    macro_rules! lookup_harness {
        ($name:ident, $n:expr, $c0:expr, $c1:expr, $two:expr) => {
            #[kani::proof]
            fn $name() {
                mk::link_model();
                unsafe { lookup_all_masks($n, $c0, $c1, $two) }
            }
        };
    }
    lookup_harness!(h_lookup_1, 1, b'c', b'c', false);
    lookup_harness!(h_lookup_2, 2, b'c', b'c', true);
    lookup_harness!(h_lookup_3, 3, b'c', b'c', false);
    lookup_harness!(h_lookup_4, 4, b'c', b'c', false);

    /// Stub for std::env::var_os (std's implementation -- env lock, getenv,
    /// CStr scan -- costs 3.6 M symex steps and exhausts the SAT back end):
    /// answers from the model environment.
    pub fn var_os_model<K: AsRef<OsStr>>(key: K) -> Option<OsString> {
        unsafe {
            if key.as_ref().as_bytes() == b"PATH" && mk::env::PATH_SET {
                let mut v = Vec::new();
                let mut i = 0;
                while i < mk::env::PATHVAL_MAX && mk::env::PATH_VAL[i] != 0 {
                    v.push(mk::env::PATH_VAL[i]);
                    i += 1;
                }
                Some(OsString::from_vec(v))
            } else {
                None
            }
        }
    }

    /// no search: a name containing a slash, PATH unset, PATH empty; and a
    /// search through the real prep_exec with PATH = "d:"
    #[kani::proof]
    #[kani::stub(std::env::var_os, var_os_model)]
    fn h_lookup_nosearch() {
        mk::link_model();
        unsafe {
            let k: u8 = kani::any();
            kani::assume(k < 5);
            if k == 0 {
                lookup_case(2, 0b10, true, b'/', b'c', true, true);
            } else if k == 1 {
                lookup_case(2, 0b10, true, b'c', b'/', true, true);
            } else if k == 2 {
                lookup_case(2, 0b10, false, b'c', b'c', false, true);
            } else if k == 3 {
                lookup_case(0, 0, true, b'c', b'c', false, true);
            } else {
                lookup_case(2, 0b10, true, b'c', b'c', false, true);
            }
        }
    }

    // C17: the PATH lookup in the child reuses the buffer sized before fork
    use std::alloc::{GlobalAlloc, Layout, System};
    pub unsafe fn obs_alloc(layout: Layout) -> *mut u8 {
        System.alloc(layout)
    }
    pub unsafe fn obs_alloc_zeroed(layout: Layout) -> *mut u8 {
        System.alloc_zeroed(layout)
    }
    pub unsafe fn obs_realloc(ptr: *mut u8, layout: Layout, new_size: usize) -> *mut u8 {
        System.realloc(ptr, layout, new_size)
    }

    /// PATH shapes of 4 bytes (longest entry first / last / only empty entries), every
    /// candidate failing or one starting: no allocation from the moment the exec
    /// closure starts running (= after fork) until exec / return.
    #[kani::proof]
    fn h_alloc_path() {
        mk::link_model();
        unsafe {
            let m: u8 = kani::any();
            kani::assume(m < 16);
            let mut k: u8 = 0;
            while k < 16 {
                if m == k {
                    alloc_path_case(4, k);
                }
                k += 1;
            }
        }
    }

    pub unsafe fn alloc_path_case(n: usize, colon_mask: u8) {
        mk::reset();
        mk::init_std_fds();
        let mut p = [b'd'; PMAX];
        let mut i = 0;
        while i < n {
            if colon_mask & (1 << i) != 0 {
                p[i] = b':';
            }
            i += 1;
        }
        let mut k = 0;
        while k < 3 {
            let f: u8 = kani::any();
            kani::assume(f < 3);
            mp::EXEC_VERDICT[k] = match f {
                0 => 0,
                1 => libc::ENOENT,
                _ => libc::EACCES,
            };
            k += 1;
        }
        let args = [OsString::from("x")];
        let argvec = match CVec::new(&args) {
            Ok(v) => v,
            Err(e) => {
                std::mem::forget(e);
                return;
            }
        };
        let prep = PrepExec::new(OsString::from("cc"), argvec, None, Some(OsString::from_vec(p[..n].to_vec())));
        // fork happens here
        mp::IN_CHILD = true;
        mp::ALLOC_AT_FORK = mp::VK_ALLOCS;
        vcheck!(C17, mp::VK_ALLOCS > 0, "C17/observer-alive-here: preparing the exec (CVec, prealloc buffer) did not move the allocation counter: the observer is dead in this harness");
        let res = prep.exec();
        vcheck!(C17, mp::VK_ALLOCS == mp::ALLOC_AT_FORK, "C17/no-alloc-in-lookup: the PATH lookup allocated in the child (the candidate buffer was not sized before fork)");
        kani::cover!(mp::EXEC_ATTEMPTS == 2, "COVER/two-candidates-assembled");
        std::mem::forget(res);
    }

    // ------------------------------------------------------------------
    // C04: the poll() wrapper for time limits beyond the OS limit of 2^31-1 ms
    // ------------------------------------------------------------------
    /// posix::poll(&mut [], Some(d)) for d between 24.8 and 50.9 days (2^31 ms .. beyond
    /// 2^32 ms), whole seconds, nothing ever ready: every OS-level wait is within i32 range and
    /// never past the deadline, and 0 is returned only once d has elapsed.
    #[kani::proof]
    fn h_poll_big() {
        mk::link_model();
        unsafe {
            mk::reset();
            mk::init_std_fds();
            mk::comm::ENABLED = true;
            mk::time::NOW_S = 0;
            mk::time::NOW_NS = 0;
            let secs: u64 = kani::any();
            kani::assume(secs >= 2_147_483 && secs <= 4_400_000);
            let nanos: u32 = 0;
            mk::comm::DEADLINE_SET = true;
            mk::comm::DEADLINE_S = secs as i64;
            mk::comm::DEADLINE_NS = mk::time::NOW_NS + nanos as i64;
            if mk::comm::DEADLINE_NS >= 1_000_000_000 {
                mk::comm::DEADLINE_NS -= 1_000_000_000;
                mk::comm::DEADLINE_S += 1;
            }
            let mut fds: [PollFd<'_>; 0] = [];
            let r = poll(&mut fds, Some(Duration::new(secs, nanos)));
            match r {
                Ok(n) => {
                    kani::cover!(n == 0, "COVER/long-wait-expired");
                    // to the millisecond: now + 1 ms > deadline
                    let mut s1 = mk::time::NOW_S;
                    let mut n1 = mk::time::NOW_NS + 1_000_000;
                    if n1 >= 1_000_000_000 {
                        n1 -= 1_000_000_000;
                        s1 += 1;
                    }
                    let elapsed = s1 > mk::comm::DEADLINE_S || (s1 == mk::comm::DEADLINE_S && n1 > mk::comm::DEADLINE_NS);
                    vcheck!(C04, n != 0 || elapsed, "C04/timeout-only-when-elapsed: the poll wrapper reported 'nothing ready' before a time limit beyond 2^31 ms had elapsed");
                }
                Err(e) => {
                    vcheck!(C04, false, "C04/long-limit-no-error: the poll wrapper failed for a time limit beyond 2^31 ms");
                    std::mem::forget(e);
                }
            }
        }
    }

    #[kani::proof]
    fn prof_cap() {
        mk::link_model();
        unsafe {
            mk::reset();
            mk::init_std_fds();
            let args = [OsString::from("x")];
            let argvec = CVec::new(&args).unwrap();
            let prep = PrepExec::new(OsString::from("cc"), argvec, None, Some(OsString::from("dddd")));
            let cap = prep.prealloc_exe.capacity();
            kani::cover!(cap == 4, "COVER/cap4");
            kani::cover!(cap == 8, "COVER/cap8");
            kani::cover!(cap > 8, "COVER/capbig");
            mp::IN_CHILD = true;
            mp::EXEC_VERDICT[0] = libc::ENOENT;
            let a0 = mp::VK_ALLOCS;
            let res = prep.exec();
            kani::cover!(mp::VK_ALLOCS != a0, "COVER/allocated-in-child");
            kani::cover!(mp::VK_ALLOCS == a0, "COVER/not-allocated-in-child");
            std::mem::forget(res);
        }
    }

    #[kani::proof]
    fn prof_w2() {
        unsafe {
            mp::VK_ALLOCS = 0;
            let mut v: Vec<u8> = Vec::with_capacity(4);
            let a0 = mp::VK_ALLOCS;
            v.extend_from_slice(b"dddd");
            let a1 = mp::VK_ALLOCS;
            v.extend_from_slice(b"/");
            let a2 = mp::VK_ALLOCS;
            v.push(0);
            kani::cover!(a0 == 1, "COVER/w-a0-1");
            kani::cover!(a1 == a0, "COVER/w-a1-same");
            kani::cover!(a2 > a1, "COVER/w-a2-grew");
            kani::cover!(a2 == a1, "COVER/w-a2-same");
            kani::cover!(v.capacity() >= 8, "COVER/w-cap8");
            std::mem::forget(v);
        }
    }
}
