// harnesses (h_posix)
