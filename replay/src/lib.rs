//! Shared helpers for the native replayers: run the real crate against the
//! real kernel and evaluate the same oracle the model asserts.
use std::collections::HashMap;
use std::os::unix::io::AsRawFd;

pub const RT: &str = "/verif/.work/rt";

pub fn unhex(s: &str) -> Vec<u8> {
    if s == "-" {
        return vec![];
    }
    (0..s.len() / 2).map(|i| u8::from_str_radix(&s[2 * i..2 * i + 2], 16).unwrap_or(0)).collect()
}

#[derive(Debug, Clone, Default)]
pub struct FdInfo {
    pub dev: u64,
    pub ino: u64,
    pub mode: u32,
    pub acc: i32,
    pub cloexec: i32,
    pub off: i64,
    pub link: String,
}

impl FdInfo {
    pub fn is_fifo(&self) -> bool {
        self.mode & 0o170000 == 0o010000
    }
}

#[derive(Debug, Default)]
pub struct Report {
    pub fds: HashMap<i32, FdInfo>,
    pub argv: Vec<Vec<u8>>,
    pub env: Vec<Vec<u8>>,
    pub cwd: Vec<u8>,
    pub uid: [u32; 3],
    pub gid: [u32; 3],
    pub pgid: i32,
    pub pid: i32,
    pub sigblk: u64,
    pub sigign: u64,
    pub exe: Vec<u8>,
}

pub fn parse_report(txt: &str) -> Report {
    let mut r = Report::default();
    for l in txt.lines() {
        let w: Vec<&str> = l.split_whitespace().collect();
        if w.is_empty() {
            continue;
        }
        match w[0] {
            "fd" => {
                let fd: i32 = w[1].parse().unwrap();
                let mut fi = FdInfo::default();
                for kv in &w[2..] {
                    let mut it = kv.splitn(2, '=');
                    let k = it.next().unwrap();
                    let v = it.next().unwrap_or("");
                    match k {
                        "dev" => fi.dev = v.parse().unwrap_or(0),
                        "ino" => fi.ino = v.parse().unwrap_or(0),
                        "mode" => fi.mode = u32::from_str_radix(v, 8).unwrap_or(0),
                        "acc" => fi.acc = v.parse().unwrap_or(0),
                        "cloexec" => fi.cloexec = v.parse().unwrap_or(0),
                        "off" => fi.off = v.parse().unwrap_or(0),
                        "link" => fi.link = String::from_utf8_lossy(&unhex(v)).into_owned(),
                        _ => (),
                    }
                }
                r.fds.insert(fd, fi);
            }
            "argv" => r.argv = w[2..].iter().map(|s| unhex(s)).collect(),
            "env" => r.env = w[2..].iter().map(|s| unhex(s)).collect(),
            "cwd" => r.cwd = unhex(w[1]),
            "uid" => r.uid = [w[1].parse().unwrap(), w[2].parse().unwrap(), w[3].parse().unwrap()],
            "gid" => r.gid = [w[1].parse().unwrap(), w[2].parse().unwrap(), w[3].parse().unwrap()],
            "pgid" => {
                r.pgid = w[1].parse().unwrap();
                r.pid = w[3].parse().unwrap();
            }
            "sigblk" => r.sigblk = u64::from_str_radix(w[1], 16).unwrap_or(0),
            "sigign" => r.sigign = u64::from_str_radix(w[1], 16).unwrap_or(0),
            "exe" => r.exe = unhex(w[1]),
            _ => (),
        }
    }
    r
}

/// Wait (bounded) for the report of child `pid` and parse it.
pub fn read_report(pid: u32, timeout_ms: u64) -> Option<Report> {
    let path = format!("{}/report.{}", RT, pid);
    let t0 = std::time::Instant::now();
    loop {
        if let Ok(txt) = std::fs::read_to_string(&path) {
            if txt.ends_with("end\n") {
                let _ = std::fs::remove_file(&path);
                return Some(parse_report(&txt));
            }
        }
        if t0.elapsed().as_millis() as u64 > timeout_ms {
            return None;
        }
        std::thread::sleep(std::time::Duration::from_millis(2));
    }
}

pub fn fstat_of(fd: i32) -> Option<(u64, u64)> {
    let mut st: libc::stat = unsafe { std::mem::zeroed() };
    if unsafe { libc::fstat(fd, &mut st) } != 0 {
        return None;
    }
    Some((st.st_dev as u64, st.st_ino as u64))
}

pub fn fstat_file(f: &std::fs::File) -> (u64, u64) {
    fstat_of(f.as_raw_fd()).unwrap()
}

pub fn selfreport_path() -> String {
    let me = std::env::current_exe().unwrap();
    me.parent().unwrap().join("selfreport").to_str().unwrap().to_owned()
}

/// Descriptors currently open in this process (excluding the directory handle used to list them).
pub fn open_fds() -> Vec<i32> {
    let mut v = vec![];
    for fd in 0..256 {
        if unsafe { libc::fcntl(fd, libc::F_GETFD) } != -1 {
            v.push(fd);
        }
    }
    v
}

/// true iff this process has no child (neither running nor zombie)
pub fn no_children() -> bool {
    let mut st = 0;
    let r = unsafe { libc::waitpid(-1, &mut st, libc::WNOHANG) };
    r == -1 && std::io::Error::last_os_error().raw_os_error() == Some(libc::ECHILD)
}

pub fn args_map() -> HashMap<String, String> {
    let mut m = HashMap::new();
    for a in std::env::args().skip(2) {
        let mut it = a.splitn(2, '=');
        let k = it.next().unwrap().to_owned();
        m.insert(k, it.next().unwrap_or("").to_owned());
    }
    m
}
