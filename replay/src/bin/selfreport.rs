// Child helper for native replays: writes what it sees of itself (descriptor
// table with object identity, argv, environ, cwd, ids, signal state, own path)
// to /verif/.work/rt/report.<pid>, then optionally behaves as scripted by argv[1]:
//   (none)        exit 0
//   sleep:<ms>    sleep then exit 0
//   cat           copy stdin to stdout until EOF, exit 0
//   exit:<code>   exit with code
use std::ffi::CStr;
use std::fmt::Write as _;
use std::io::{Read, Write};
use std::os::unix::ffi::OsStrExt;

fn hex(b: &[u8]) -> String {
    let mut s = String::new();
    for x in b {
        write!(s, "{:02x}", x).unwrap();
    }
    if s.is_empty() {
        s.push('-');
    }
    s
}

fn main() {
    let pid = unsafe { libc::getpid() };
    let mut out = String::new();
    for fd in 0..64 {
        let mut st: libc::stat = unsafe { std::mem::zeroed() };
        if unsafe { libc::fstat(fd, &mut st) } != 0 {
            continue;
        }
        let fl = unsafe { libc::fcntl(fd, libc::F_GETFL) };
        let fdfl = unsafe { libc::fcntl(fd, libc::F_GETFD) };
        let off = unsafe { libc::lseek(fd, 0, libc::SEEK_CUR) };
        let link = std::fs::read_link(format!("/proc/self/fd/{}", fd)).map(|p| hex(p.as_os_str().as_bytes())).unwrap_or_else(|_| "-".into());
        writeln!(out, "fd {} dev={} ino={} mode={:o} rdev={} acc={} cloexec={} off={} link={}", fd, st.st_dev, st.st_ino, st.st_mode, st.st_rdev, fl & libc::O_ACCMODE, fdfl & libc::FD_CLOEXEC, off, link).unwrap();
    }
    let args: Vec<_> = std::env::args_os().collect();
    write!(out, "argv {}", args.len()).unwrap();
    for a in &args {
        write!(out, " {}", hex(a.as_bytes())).unwrap();
    }
    out.push('\n');
    // raw environ (std::env::vars_os would drop entries without '=' and de-duplicate nothing)
    extern "C" {
        static environ: *const *const libc::c_char;
    }
    let mut envs = vec![];
    unsafe {
        let mut p = environ;
        while !p.is_null() && !(*p).is_null() {
            envs.push(hex(CStr::from_ptr(*p).to_bytes()));
            p = p.add(1);
        }
    }
    writeln!(out, "env {} {}", envs.len(), envs.join(" ")).unwrap();
    writeln!(out, "cwd {}", std::env::current_dir().map(|p| hex(p.as_os_str().as_bytes())).unwrap_or_else(|_| "-".into())).unwrap();
    let (mut r, mut e, mut s) = (0, 0, 0);
    unsafe { libc::getresuid(&mut r, &mut e, &mut s) };
    writeln!(out, "uid {} {} {}", r, e, s).unwrap();
    unsafe { libc::getresgid(&mut r, &mut e, &mut s) };
    writeln!(out, "gid {} {} {}", r, e, s).unwrap();
    writeln!(out, "pgid {} pid {} ppid {}", unsafe { libc::getpgid(0) }, pid, unsafe { libc::getppid() }).unwrap();
    if let Ok(stat) = std::fs::read_to_string("/proc/self/status") {
        for l in stat.lines() {
            if l.starts_with("SigBlk:") || l.starts_with("SigIgn:") {
                writeln!(out, "{}", l.replace(":\t", " ").replace(':', " ").to_lowercase()).unwrap();
            }
        }
    }
    writeln!(out, "exe {}", std::fs::read_link("/proc/self/exe").map(|p| hex(p.as_os_str().as_bytes())).unwrap_or_else(|_| "-".into())).unwrap();
    writeln!(out, "end").unwrap();
    let dir = "/verif/.work/rt";
    let tmp = format!("{}/report.{}.tmp", dir, pid);
    let fin = format!("{}/report.{}", dir, pid);
    if std::fs::write(&tmp, out).is_ok() {
        let _ = std::fs::rename(&tmp, &fin);
    }
    let mode = args.get(1).and_then(|a| a.to_str().map(|s| s.to_owned())).unwrap_or_default();
    if let Some(ms) = mode.strip_prefix("sleep:") {
        std::thread::sleep(std::time::Duration::from_millis(ms.parse().unwrap_or(0)));
    } else if mode == "cat" || mode.starts_with("slowcat:") {
        if let Some(ms) = mode.strip_prefix("slowcat:") {
            std::thread::sleep(std::time::Duration::from_millis(ms.parse().unwrap_or(0)));
        }
        let mut buf = [0u8; 4096];
        let mut i = std::io::stdin();
        let mut o = std::io::stdout();
        loop {
            match i.read(&mut buf) {
                Ok(0) | Err(_) => break,
                Ok(n) => {
                    if o.write_all(&buf[..n]).is_err() {
                        break;
                    }
                }
            }
        }
    } else if let Some(rest) = mode.strip_prefix("closein:") {
        // wait, close stdin, stay silent with stdout open, exit
        let mut it = rest.split(':');
        let before: u64 = it.next().and_then(|x| x.parse().ok()).unwrap_or(300);
        let after: u64 = it.next().and_then(|x| x.parse().ok()).unwrap_or(1500);
        std::thread::sleep(std::time::Duration::from_millis(before));
        unsafe { libc::close(0) };
        std::thread::sleep(std::time::Duration::from_millis(after));
    } else if let Some(path) = mode.strip_prefix("closeout_count:") {
        // close both outputs at once, then consume all of stdin and record how much arrived
        unsafe {
            libc::close(1);
            libc::close(2);
        }
        let mut buf = [0u8; 4096];
        let mut total = 0usize;
        let mut i = std::io::stdin();
        loop {
            match i.read(&mut buf) {
                Ok(0) | Err(_) => break,
                Ok(n) => total += n,
            }
        }
        let _ = std::fs::write(path, format!("{}", total));
    } else if mode == "dup512" {
        // read 512 bytes at a time and write every block twice (output outgrows input);
        // raw system calls: std's stdin would read 8 KiB at once
        let mut buf = [0u8; 512];
        'outer: loop {
            let n = unsafe { libc::read(0, buf.as_mut_ptr() as *mut libc::c_void, 512) };
            if n <= 0 {
                break;
            }
            for _ in 0..2 {
                let mut off = 0isize;
                while off < n {
                    let w = unsafe { libc::write(1, buf.as_ptr().offset(off) as *const libc::c_void, (n - off) as usize) };
                    if w <= 0 {
                        break 'outer;
                    }
                    off += w;
                }
            }
        }
    } else if mode == "flood" {
        let buf = [b'f'; 65536];
        let mut o = std::io::stdout();
        loop {
            if o.write_all(&buf).is_err() {
                break;
            }
        }
    } else if let Some(rest) = mode.strip_prefix("pattern:") {
        // position-tagged bytes on both streams, interleaved in small chunks
        let mut it = rest.split(':');
        let nout: usize = it.next().and_then(|x| x.parse().ok()).unwrap_or(0);
        let nerr: usize = it.next().and_then(|x| x.parse().ok()).unwrap_or(0);
        let chunk: usize = it.next().and_then(|x| x.parse().ok()).unwrap_or(1000);
        let g = |tag: u8, p: usize| tag ^ (p as u8).wrapping_mul(37) ^ ((p >> 8) as u8).wrapping_mul(11);
        let (mut a, mut b) = (0usize, 0usize);
        let mut o = std::io::stdout();
        let mut e = std::io::stderr();
        while a < nout || b < nerr {
            if a < nout {
                let n = chunk.min(nout - a);
                let v: Vec<u8> = (a..a + n).map(|p| g(0x5a, p)).collect();
                if o.write_all(&v).is_err() { break; }
                let _ = o.flush();
                a += n;
            }
            if b < nerr {
                let n = (chunk / 2 + 1).min(nerr - b);
                let v: Vec<u8> = (b..b + n).map(|p| g(0xc3, p)).collect();
                if e.write_all(&v).is_err() { break; }
                b += n;
            }
        }
    } else if let Some(c) = mode.strip_prefix("exit:") {
        std::process::exit(c.parse().unwrap_or(0));
    }
}
