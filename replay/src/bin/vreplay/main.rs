// Native replayer: `vreplay <family> key=value...`.  Prints one line per case
// (`CASE <scenario> OK` / `CASE <scenario> VIOL <tag>: text`) and a SUMMARY line.
use std::fs::File;
use std::io::{Seek, SeekFrom, Write};
use std::rc::Rc;
use subprocess::{Popen, PopenConfig, PopenError, Redirection};
use vreplay::*;

mod builder;
mod comm;
mod fail;
mod ident;
mod life;
mod lookup;
mod spawn;

fn main() {
    std::fs::create_dir_all(RT).ok();
    let fam = std::env::args().nth(1).unwrap_or_default();
    let a = args_map();
    let (cases, viols) = match fam.as_str() {
        "spawn" => spawn::run(&a),
        "fail" => fail::run(&a),
        "comm" => comm::run(&a),
        "builder" => builder::run(&a),
        "ident" => ident::run(&a),
        "life" => life::run(&a),
        "lookup" => lookup::run(&a),
        _ => {
            eprintln!("unknown family {}", fam);
            std::process::exit(2);
        }
    };
    println!("SUMMARY family={} cases={} violations={}", fam, cases, viols);
}
