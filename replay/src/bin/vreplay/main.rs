// Native replayer: `vreplay <family> key=value...`.  Prints one line per case
// (`CASE <scenario> OK` / `CASE <scenario> VIOL <tag>: text`) and a SUMMARY line.
use std::fs::File;
use std::io::{Seek, SeekFrom, Write};
use std::rc::Rc;
use subprocess::{Popen, PopenConfig, PopenError, Redirection};
use vreplay::*;

mod alloc;
mod builder;
mod comm;
mod fail;
mod ident;
mod life;
mod lookup;
mod spawn;

// ---- allocation observer for the "alloc" family: counts allocations made in a forked child
use std::alloc::{GlobalAlloc, Layout, System};
use std::sync::atomic::{AtomicBool, AtomicI32, Ordering};

static IN_FORKED_CHILD: AtomicBool = AtomicBool::new(false);
static PARENT_PID: AtomicI32 = AtomicI32::new(0);

struct Observer;

fn mark() {
    // async-signal-safe: raw open/write/close on a path prepared before fork, no allocation
    unsafe {
        let fd = libc::open(PATHBUF.as_ptr() as *const libc::c_char, libc::O_WRONLY | libc::O_CREAT | libc::O_APPEND, 0o666);
        if fd >= 0 {
            libc::write(fd, b"x".as_ptr() as *const libc::c_void, 1);
            libc::close(fd);
        }
    }
}

static mut PATHBUF: [u8; 64] = [0; 64];

unsafe impl GlobalAlloc for Observer {
    unsafe fn alloc(&self, l: Layout) -> *mut u8 {
        if IN_FORKED_CHILD.load(Ordering::Relaxed) {
            mark();
        }
        System.alloc(l)
    }
    unsafe fn dealloc(&self, p: *mut u8, l: Layout) {
        System.dealloc(p, l)
    }
    unsafe fn alloc_zeroed(&self, l: Layout) -> *mut u8 {
        if IN_FORKED_CHILD.load(Ordering::Relaxed) {
            mark();
        }
        System.alloc_zeroed(l)
    }
    unsafe fn realloc(&self, p: *mut u8, l: Layout, n: usize) -> *mut u8 {
        if IN_FORKED_CHILD.load(Ordering::Relaxed) {
            mark();
        }
        System.realloc(p, l, n)
    }
}

#[global_allocator]
static GLOBAL: Observer = Observer;

extern "C" fn atfork_child() {
    IN_FORKED_CHILD.store(true, Ordering::Relaxed);
}

pub fn arm_fork_observer() {
    let pid = std::process::id();
    PARENT_PID.store(pid as i32, Ordering::Relaxed);
    let s = format!("/verif/.work/rt/alloc.{}\0", pid);
    unsafe {
        let b = s.as_bytes();
        let mut i = 0;
        while i < b.len() && i < 63 {
            PATHBUF[i] = b[i];
            i += 1;
        }
        libc::pthread_atfork(None, None, Some(atfork_child));
    }
}

fn main() {
    std::fs::create_dir_all(RT).ok();
    let fam = std::env::args().nth(1).unwrap_or_default();
    let a = args_map();
    let (cases, viols) = match fam.as_str() {
        "spawn" => spawn::run(&a),
        "fail" => fail::run(&a),
        "comm" => comm::run(&a),
        "alloc" => alloc::run(&a),
        "builder" => builder::run(&a),
        "ident" => ident::run(&a),
        "life" => life::run(&a),
        "lookup" => lookup::run(&a),
        _ => {
            eprintln!("unknown family {}", fam);
            std::process::exit(2);
        }
    };
    println!("SUMMARY family={} cases={} violations={}", fam, cases, viols);
}
