// Family "spawn": Popen::create with a stream configuration against the
// self-reporting child.  Oracles: C05 (wiring by object identity, Option-ness,
// invalid combinations refused, parent's std streams untouched), C08 (no pipe
// end above fd 2 in the child), C18 (signal state).
use super::*;
use std::collections::HashMap;
use std::os::unix::io::AsRawFd;

const KINDS: [char; 5] = ['n', 'p', 'm', 'f', 'r']; // None Pipe Merge File RcFile

struct Expect {
    // (dev, ino) the child's fd i must have; offset marker if a file
    obj: [Option<(u64, u64)>; 3],
    off: [Option<i64>; 3],
    pipe: [bool; 3],
}

pub fn one_case(kinds: [char; 3], shared: bool, focus: &str, earlier: usize, block_mask: u64) -> Vec<String> {
    let mut viol = vec![];
    let valid = kinds[0] != 'm' && !(kinds[1] == 'm' && kinds[2] == 'm');
    let before_std: Vec<_> = (0..3).map(|i| fstat_of(i)).collect();
    // earlier Popens that stay alive while we spawn (their parent ends are open)
    let mut earlier_p = vec![];
    for _ in 0..earlier {
        let p = Popen::create(
            &[selfreport_path(), "cat".to_string()],
            PopenConfig { stdin: Redirection::Pipe, stdout: Redirection::Pipe, ..Default::default() },
        );
        if let Ok(p) = p {
            read_report(p.pid().unwrap(), 2000);
            earlier_p.push(p);
        }
    }
    let fds_before = open_fds();
    let mut files: Vec<File> = vec![];
    let mut exp = Expect { obj: [None; 3], off: [None; 3], pipe: [false; 3] };
    let mut shared_rc: Option<Rc<File>> = None;
    let mut reds = vec![];
    for i in 0..3 {
        let mk = |tag: usize| -> File {
            let path = format!("{}/file.{}.{}", RT, std::process::id(), tag);
            let mut f = std::fs::OpenOptions::new().read(true).write(true).create(true).truncate(true).open(&path).unwrap();
            f.write_all(&vec![b'x'; 200]).unwrap();
            f.seek(SeekFrom::Start(100 + tag as u64)).unwrap();
            f
        };
        let r = match kinds[i] {
            'n' => {
                exp.obj[i] = before_std[i];
                Redirection::None
            }
            'p' => {
                exp.pipe[i] = true;
                Redirection::Pipe
            }
            'm' => Redirection::Merge,
            'f' => {
                let f = mk(i);
                exp.obj[i] = Some(fstat_file(&f));
                exp.off[i] = Some(100 + i as i64);
                files.push(f.try_clone().unwrap()); // keep the file (different OFD) for cleanup only
                Redirection::File(f)
            }
            _ => {
                if shared {
                    if shared_rc.is_none() {
                        shared_rc = Some(Rc::new(mk(9)));
                    }
                    let rc = shared_rc.as_ref().unwrap();
                    exp.obj[i] = Some(fstat_file(rc));
                    exp.off[i] = Some(109);
                    Redirection::RcFile(Rc::clone(rc))
                } else {
                    let f = mk(4 + i);
                    exp.obj[i] = Some(fstat_file(&f));
                    exp.off[i] = Some(104 + i as i64);
                    Redirection::RcFile(Rc::new(f))
                }
            }
        };
        reds.push(r);
    }
    drop(shared_rc);
    let r2 = reds.pop().unwrap();
    let r1 = reds.pop().unwrap();
    let r0 = reds.pop().unwrap();
    // optionally block signals in this thread while spawning (C18)
    let mut oldset: libc::sigset_t = unsafe { std::mem::zeroed() };
    if block_mask != 0 {
        unsafe {
            let mut set: libc::sigset_t = std::mem::zeroed();
            libc::sigemptyset(&mut set);
            for s in 1..64 {
                if block_mask & (1 << (s - 1)) != 0 && s != libc::SIGKILL && s != libc::SIGSTOP {
                    libc::sigaddset(&mut set, s);
                }
            }
            libc::pthread_sigmask(libc::SIG_BLOCK, &set, &mut oldset);
        }
    }
    let res = Popen::create(
        &[selfreport_path()],
        PopenConfig { stdin: r0, stdout: r1, stderr: r2, ..Default::default() },
    );
    if block_mask != 0 {
        unsafe { libc::pthread_sigmask(libc::SIG_SETMASK, &oldset, std::ptr::null_mut()) };
    }
    match res {
        Err(PopenError::LogicError(_)) => {
            if valid {
                viol.push("C05/valid-config-accepted: a valid stream configuration was refused".to_string());
            }
        }
        Err(e) => viol.push(format!("ENV/spawn-error: {:?}", e)),
        Ok(mut p) => {
            if !valid {
                viol.push("C05/invalid-config-logic-error: an invalid stream configuration did not yield LogicError (a process was started)".to_string());
            }
            let have = [p.stdin.is_some(), p.stdout.is_some(), p.stderr.is_some()];
            for i in 0..3 {
                if have[i] != exp.pipe[i] {
                    viol.push(format!("C05/parent-handle-iff-piped: stream {} handle present={} piped={}", i, have[i], exp.pipe[i]));
                }
            }
            let pipe_ino = [
                p.stdin.as_ref().map(fstat_file),
                p.stdout.as_ref().map(fstat_file),
                p.stderr.as_ref().map(fstat_file),
            ];
            let rep = read_report(p.pid().unwrap(), 3000);
            match rep {
                None => viol.push("ENV/no-report: child did not report".to_string()),
                Some(rep) => {
                    if valid {
                        // resolve merges
                        let mut want: [Option<(u64, u64)>; 3] = exp.obj;
                        let mut want_off = exp.off;
                        for i in 0..3 {
                            if exp.pipe[i] {
                                want[i] = pipe_ino[i];
                            }
                        }
                        if kinds[1] == 'm' {
                            want[1] = want[2];
                            want_off[1] = want_off[2];
                        }
                        if kinds[2] == 'm' {
                            want[2] = want[1];
                            want_off[2] = want_off[1];
                        }
                        let names = ["child-stdin", "child-stdout", "child-stderr"];
                        for i in 0..3 {
                            match rep.fds.get(&(i as i32)) {
                                None => viol.push(format!("C05/{}: child's fd {} is closed", names[i], i)),
                                Some(fi) => {
                                    if Some((fi.dev, fi.ino)) != want[i] {
                                        viol.push(format!("C05/{}: child's fd {} is not the requested object at exec (got {} want {:?})", names[i], i, fi.link, want[i]));
                                    } else if let Some(o) = want_off[i] {
                                        if fi.off != o {
                                            viol.push(format!("C05/{}: child's fd {} is a different open file description (offset {} want {})", names[i], i, fi.off, o));
                                        }
                                    }
                                    if exp.pipe[i] {
                                        let want_acc = if i == 0 { libc::O_RDONLY } else { libc::O_WRONLY };
                                        if fi.acc != want_acc || !fi.is_fifo() {
                                            viol.push(format!("C05/{}: child's fd {} is not the peer end of the pipe", names[i], i));
                                        }
                                    }
                                }
                            }
                        }
                    }
                    // C08: nothing above fd 2 that is a pipe
                    for (fd, fi) in rep.fds.iter() {
                        if *fd > 2 && fi.is_fifo() {
                            viol.push(format!("C08/no-pipe-end-survives-exec: child holds pipe {} at fd {}", fi.link, fd));
                        }
                    }
                    // C18
                    if rep.sigblk != 0 {
                        viol.push(format!("C18/mask-empty: child starts with SigBlk={:x}", rep.sigblk));
                    }
                    if rep.sigign & (1 << (libc::SIGPIPE - 1)) != 0 {
                        viol.push("C18/sigpipe-default: child starts with SIGPIPE ignored".to_string());
                    }
                }
            }
            // parent ends close-on-exec (C08 invariant)
            for f in [p.stdin.as_ref(), p.stdout.as_ref(), p.stderr.as_ref()].iter().flatten() {
                let fl = unsafe { libc::fcntl(f.as_raw_fd(), libc::F_GETFD) };
                if fl & libc::FD_CLOEXEC == 0 {
                    viol.push("C08/parent-end-cloexec: a parent pipe end is inheritable".to_string());
                }
            }
            p.stdin.take();
            let _ = p.wait();
        }
    }
    drop(files);
    for mut p in earlier_p {
        p.stdin.take();
        let _ = p.wait();
    }
    let after_std: Vec<_> = (0..3).map(|i| fstat_of(i)).collect();
    if after_std != before_std {
        viol.push("C05/parent-std-untouched: the parent's own standard streams changed".to_string());
    }
    let fds_after = open_fds();
    let _ = fds_before;
    let _ = fds_after;
    for t in 0..10 {
        let _ = std::fs::remove_file(format!("{}/file.{}.{}", RT, std::process::id(), t));
    }
    viol.retain(|v| focus.is_empty() || v.starts_with(focus) || v.starts_with("ENV/"));
    viol
}

pub fn run(a: &HashMap<String, String>) -> (usize, usize) {
    let focus = a.get("focus").cloned().unwrap_or_default();
    let earlier: usize = a.get("earlier").and_then(|s| s.parse().ok()).unwrap_or(0);
    let mask: u64 = a.get("mask").and_then(|s| u64::from_str_radix(s, 16).ok()).unwrap_or(0);
    let mut cases = 0;
    let mut viols = 0;
    let list: Vec<([char; 3], bool)> = if let Some(k) = a.get("kinds") {
        let c: Vec<char> = k.chars().collect();
        vec![([c[0], c[1], c[2]], a.get("shared").map(|s| s == "1").unwrap_or(false))]
    } else {
        let mut v = vec![];
        for &x in &KINDS {
            for &y in &KINDS {
                for &z in &KINDS {
                    let k = [x, y, z];
                    v.push((k, false));
                    if k.iter().filter(|c| **c == 'r').count() >= 2 {
                        v.push((k, true));
                    }
                }
            }
        }
        v
    };
    // spawns that merge onto an inherited stream, from a thread that exits afterwards:
    // the parent's own descriptors 1 and 2 must survive the thread
    if a.get("kinds").is_none() {
        for kinds in [['n', 'n', 'm'], ['n', 'm', 'n']].iter() {
            let k = *kinds;
            let before: Vec<_> = (0..3).map(|i| fstat_of(i)).collect();
            // keep private duplicates: if the library closes our own fd 1/2 we still want to report it
            let saved: Vec<i32> = (0..3).map(|i| unsafe { libc::fcntl(i, libc::F_DUPFD_CLOEXEC, 100) }).collect();
            let f = focus.clone();
            let v = std::thread::spawn(move || one_case(k, false, &f, 0, 0)).join().unwrap_or_else(|_| vec!["ENV/thread-panicked".to_string()]);
            let mut v = v;
            let after: Vec<_> = (0..3).map(|i| fstat_of(i)).collect();
            if after != before {
                v.push("C05/parent-std-untouched: after a spawning thread exited, one of the parent's own standard streams is closed or changed".to_string());
                for i in 0..3 {
                    unsafe { libc::dup2(saved[i], i as i32) };
                }
            }
            for fd in saved {
                unsafe { libc::close(fd) };
            }
            v.retain(|m| focus.is_empty() || m.starts_with(&focus) || m.starts_with("ENV/"));
            cases += 1;
            let ks: String = k.iter().collect();
            if v.is_empty() {
                println!("CASE thread kinds={} OK", ks);
            } else {
                viols += 1;
                for m in v {
                    println!("CASE thread kinds={} VIOL {}", ks, m);
                }
            }
        }
    }
    for (k, sh) in list {
        let v = one_case(k, sh, &focus, earlier, mask);
        cases += 1;
        let ks: String = k.iter().collect();
        if v.is_empty() {
            println!("CASE kinds={} shared={} OK", ks, sh as u8);
        } else {
            viols += 1;
            for m in v {
                println!("CASE kinds={} shared={} VIOL {}", ks, sh as u8, m);
            }
        }
    }
    {
        let v = super::fail::child_runs_first_case();
        cases += 1;
        if v.is_empty() {
            println!("CASE child runs first OK");
        } else {
            viols += 1;
            for m in v {
                println!("CASE child runs first VIOL {}", m);
            }
        }
    }
    (cases, viols)
}
