// Family "fail": launches that cannot succeed (C07).  Natively provokable
// causes: missing program, non-executable program, bad cwd, refused identity
// change (when not root), descriptor exhaustion at the j-th allocation
// (RLIMIT_NOFILE).  Oracle: Err carrying the OS error, no child of the attempt
// left (running or zombie) -- also when detached --, no descriptor left open.
use super::*;
use std::collections::HashMap;

fn cfg_for(kinds: &str, detached: bool) -> (PopenConfig, Vec<i32>) {
    let mut reds = vec![];
    let mut consumed = vec![];
    for c in kinds.chars() {
        reds.push(match c {
            'p' => Redirection::Pipe,
            'm' => Redirection::Merge,
            'f' => {
                let f = std::fs::OpenOptions::new().read(true).write(true).open("/dev/null").unwrap();
                consumed.push(std::os::unix::io::AsRawFd::as_raw_fd(&f));
                Redirection::File(f)
            }
            _ => Redirection::None,
        });
    }
    let r2 = reds.pop().unwrap();
    let r1 = reds.pop().unwrap();
    let r0 = reds.pop().unwrap();
    (PopenConfig { stdin: r0, stdout: r1, stderr: r2, detached, ..Default::default() }, consumed)
}

fn check_after(tag: &str, before: &[i32], consumed: &[i32], viol: &mut Vec<String>) {
    // give a just-exited child a moment to become a zombie (it _exit()s right after reporting)
    std::thread::sleep(std::time::Duration::from_millis(30));
    if !no_children() {
        viol.push(format!("C07/failed-child-reaped: {}: a child of the failed attempt was left (running or zombie)", tag));
        // clean up for the following cases
        loop {
            let mut st = 0;
            if unsafe { libc::waitpid(-1, &mut st, 0) } <= 0 {
                break;
            }
        }
    }
    let after = open_fds();
    for fd in after.iter() {
        if !before.contains(fd) {
            viol.push(format!("C07/no-descriptor-left: {}: descriptor {} opened by the failed attempt is still open", tag, fd));
        }
    }
    for fd in consumed {
        if after.contains(fd) {
            viol.push(format!("C07/no-descriptor-left: {}: descriptor {} handed to the failed attempt is still open", tag, fd));
        }
    }
}

pub fn run(_a: &HashMap<String, String>) -> (usize, usize) {
    let mut cases = 0;
    let mut viols = 0;
    let mut report = |name: String, v: Vec<String>| {
        cases += 1;
        if v.is_empty() {
            println!("CASE {} OK", name);
        } else {
            viols += 1;
            for m in v {
                println!("CASE {} VIOL {}", name, m);
            }
        }
    };
    for kinds in ["nnn", "ppp", "fpm", "pnf"].iter() {
        for &detached in &[false, true] {
            // missing program / not executable / bad cwd
            for cause in ["enoent", "eacces", "badcwd"].iter() {
                let mut v = vec![];
                let (mut cfg, consumed) = cfg_for(kinds, detached);
                let before: Vec<i32> = open_fds().into_iter().filter(|fd| !consumed.contains(fd)).collect();
                let (argv, want): (Vec<String>, i32) = match *cause {
                    "enoent" => (vec!["/nonexistent/prog".into()], libc::ENOENT),
                    "eacces" => (vec!["/etc/passwd".into()], libc::EACCES),
                    _ => {
                        cfg.cwd = Some("/nonexistent/dir".into());
                        (vec![selfreport_path()], libc::ENOENT)
                    }
                };
                match Popen::create(&argv, cfg) {
                    Ok(mut p) => {
                        v.push("C07/ok-iff-started: a handle was returned for a program that cannot start".to_string());
                        let _ = p.wait();
                    }
                    Err(PopenError::IoError(e)) => {
                        if e.raw_os_error() != Some(want) {
                            v.push(format!("C07/error-carries-os-error: got {:?} want errno {}", e.raw_os_error(), want));
                        }
                    }
                    Err(e) => v.push(format!("C07/error-carries-os-error: got {:?}", e)),
                }
                check_after(cause, &before, &consumed, &mut v);
                report(format!("cause={} kinds={} detached={}", cause, kinds, detached as u8), v);
            }
            // descriptor exhaustion at the j-th allocation
            for j in 0..9u64 {
                let mut v = vec![];
                let (cfg, consumed) = cfg_for(kinds, detached);
                let before: Vec<i32> = open_fds().into_iter().filter(|fd| !consumed.contains(fd)).collect();
                let top = *open_fds().iter().max().unwrap() as u64;
                let mut old: libc::rlimit = unsafe { std::mem::zeroed() };
                unsafe { libc::getrlimit(libc::RLIMIT_NOFILE, &mut old) };
                let lim = libc::rlimit { rlim_cur: top + 1 + j, rlim_max: old.rlim_max };
                unsafe { libc::setrlimit(libc::RLIMIT_NOFILE, &lim) };
                let res = Popen::create(&[selfreport_path()], cfg);
                unsafe { libc::setrlimit(libc::RLIMIT_NOFILE, &old) };
                match res {
                    Ok(mut p) => {
                        p.stdin.take();
                        let _ = p.wait();
                        drop(p);
                    }
                    Err(PopenError::IoError(e)) => {
                        if e.raw_os_error() != Some(libc::EMFILE) {
                            v.push(format!("C07/error-carries-os-error: got {:?} want EMFILE", e.raw_os_error()));
                        }
                    }
                    Err(e) => v.push(format!("C07/error-carries-os-error: got {:?}", e)),
                }
                check_after("emfile", &before, &consumed, &mut v);
                report(format!("cause=emfile@{} kinds={} detached={}", j, kinds, detached as u8), v);
            }
        }
    }
    report("child runs first".to_string(), child_runs_first_case());
    (cases, viols)
}

static SLOW_PARENT: std::sync::atomic::AtomicBool = std::sync::atomic::AtomicBool::new(false);
unsafe extern "C" fn slow_parent() {
    if SLOW_PARENT.load(std::sync::atomic::Ordering::SeqCst) {
        std::thread::sleep(std::time::Duration::from_millis(300));
    }
}

/// The child reaches exec before the parent continues after fork (forced by a
/// pthread_atfork parent handler): a started program must still yield a handle.
pub fn child_runs_first_case() -> Vec<String> {
    let mut v = vec![];
    static ONCE: std::sync::Once = std::sync::Once::new();
    ONCE.call_once(|| unsafe {
        libc::pthread_atfork(None, Some(slow_parent), None);
    });
    for &setpgid in &[false, true] {
        SLOW_PARENT.store(true, std::sync::atomic::Ordering::SeqCst);
        let r = Popen::create(&["sleep", "2"], PopenConfig { setpgid, detached: true, ..Default::default() });
        SLOW_PARENT.store(false, std::sync::atomic::Ordering::SeqCst);
        match r {
            Ok(mut p) => {
                let _ = p.kill();
                let _ = p.wait();
            }
            Err(e) => {
                let mut st = 0;
                let left = unsafe { libc::waitpid(-1, &mut st, libc::WNOHANG) };
                v.push(format!("C07/err-iff-failed: create(setpgid={}) returned {:?} although the program was started (child exec'd before the parent continued); waitpid(-1, WNOHANG) = {}", setpgid, e, left));
                loop {
                    let mut st = 0;
                    if unsafe { libc::waitpid(-1, &mut st, 0) } <= 0 {
                        break;
                    }
                }
            }
        }
    }
    v
}
