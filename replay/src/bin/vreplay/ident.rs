// Family "ident" (C06): argv / program / environment / cwd / identity as seen
// by the self-reporting child, against the request.
use super::*;
use std::collections::HashMap;
use std::ffi::OsString;
use std::os::unix::ffi::OsStringExt;

fn os(b: &[u8]) -> OsString {
    OsString::from_vec(b.to_vec())
}

pub fn run(_a: &HashMap<String, String>) -> (usize, usize) {
    let mut cases = 0;
    let mut viols = 0;
    let mut report = |name: String, v: Vec<String>| {
        cases += 1;
        if v.is_empty() {
            println!("CASE {} OK", name);
        } else {
            viols += 1;
            for m in v {
                println!("CASE {} VIOL {}", name, m);
            }
        }
    };
    let me = selfreport_path();
    // ---- argv byte-exactness, executable override
    let tricky: Vec<Vec<u8>> = vec![
        b"".to_vec(), b" ".to_vec(), b"a b".to_vec(), b"'".to_vec(), b"\"".to_vec(), b"\\".to_vec(), b"$x".to_vec(),
        vec![0xff, 0xfe], "\u{e9}\u{20ac}".as_bytes().to_vec(), b"\n".to_vec(), vec![b'x'; 20000],
    ];
    for with_exe in &[false, true] {
        let mut argv: Vec<OsString> = vec![if *with_exe { os(b"fancy name") } else { os(me.as_bytes()) }];
        for t in &tricky {
            argv.push(os(t));
        }
        let cfg = PopenConfig { executable: if *with_exe { Some(os(me.as_bytes())) } else { None }, ..Default::default() };
        let mut v = vec![];
        match Popen::create(&argv, cfg) {
            Ok(mut p) => {
                match read_report(p.pid().unwrap(), 3000) {
                    Some(rep) => {
                        if rep.argv.len() != argv.len() {
                            v.push(format!("C06/argv-count: child saw {} arguments, {} given", rep.argv.len(), argv.len()));
                        } else {
                            for (i, a) in argv.iter().enumerate() {
                                if rep.argv[i] != std::os::unix::ffi::OsStrExt::as_bytes(a.as_os_str()) {
                                    v.push(format!("C06/argv-bytes: argument {} differs", i));
                                }
                            }
                        }
                        if rep.exe != me.as_bytes() {
                            v.push("C06/program: a different program image was started".to_string());
                        }
                    }
                    None => v.push("ENV/no-report".to_string()),
                }
                let _ = p.wait();
            }
            Err(e) => v.push(format!("C06/launch-proceeds: {:?}", e)),
        }
        report(format!("argv exe_override={}", *with_exe as u8), v);
    }
    // many arguments
    {
        let mut argv = vec![os(me.as_bytes())];
        for i in 0..400 {
            argv.push(os(format!("a{}", i).as_bytes()));
        }
        let mut v = vec![];
        match Popen::create(&argv, PopenConfig::default()) {
            Ok(mut p) => {
                match read_report(p.pid().unwrap(), 3000) {
                    Some(rep) => {
                        if rep.argv.len() != 401 || rep.argv[400] != b"a399" {
                            v.push("C06/argv-count: 400 arguments not preserved".to_string());
                        }
                    }
                    None => v.push("ENV/no-report".to_string()),
                }
                let _ = p.wait();
            }
            Err(e) => v.push(format!("C06/launch-proceeds: {:?}", e)),
        }
        report("argv many=400".to_string(), v);
    }
    // NUL rejected
    for pos in 0..3 {
        let mut argv = vec![os(me.as_bytes()), os(b"ok"), os(b"fine")];
        argv[pos] = os(b"a\0b");
        let mut v = vec![];
        match Popen::create(&argv, PopenConfig::default()) {
            Ok(mut p) => {
                v.push("C06/nul-rejected: an argument containing NUL did not prevent the launch".to_string());
                let _ = p.wait();
            }
            Err(PopenError::IoError(_)) => (),
            Err(e) => v.push(format!("C06/nul-rejected: {:?}", e)),
        }
        if !no_children() {
            v.push("C06/nul-rejected: a process was started".to_string());
        }
        report(format!("nul pos={}", pos), v);
    }
    // ---- environment: duplicates in every position, later wins; unspecified = inherit
    let envs: Vec<Vec<(&[u8], &[u8])>> = vec![
        vec![(b"A", b"1"), (b"B", b"2"), (b"A", b"3")],
        vec![(b"A", b"1"), (b"A", b"2"), (b"A", b"")],
        vec![(b"A", b"1"), (b"B", b"x=y"), (b"C", b" ")],
        vec![],
    ];
    for (n, e) in envs.iter().enumerate() {
        let env: Vec<(OsString, OsString)> = e.iter().map(|(k, v)| (os(k), os(v))).collect();
        let mut want: Vec<Vec<u8>> = vec![];
        for (i, (k, val)) in e.iter().enumerate() {
            if e[i + 1..].iter().any(|(k2, _)| k2 == k) {
                continue;
            }
            let mut s = k.to_vec();
            s.push(b'=');
            s.extend_from_slice(val);
            want.push(s);
        }
        let mut v = vec![];
        match Popen::create(&[me.clone()], PopenConfig { env: Some(env), ..Default::default() }) {
            Ok(mut p) => {
                match read_report(p.pid().unwrap(), 3000) {
                    Some(rep) => {
                        let mut got = rep.env.clone();
                        got.sort();
                        want.sort();
                        if got != want {
                            v.push(format!("C06/env-entry: child environment {:?} differs from the requested {:?}", got.iter().map(|x| String::from_utf8_lossy(x).into_owned()).collect::<Vec<_>>(), want.iter().map(|x| String::from_utf8_lossy(x).into_owned()).collect::<Vec<_>>()));
                        }
                    }
                    None => v.push("ENV/no-report".to_string()),
                }
                let _ = p.wait();
            }
            Err(e) => v.push(format!("C06/launch-proceeds: {:?}", e)),
        }
        report(format!("env case={}", n), v);
    }
    {
        let mut v = vec![];
        std::env::set_var("VREPLAY_MARK", "m1");
        match Popen::create(&[me.clone()], PopenConfig::default()) {
            Ok(mut p) => {
                match read_report(p.pid().unwrap(), 3000) {
                    Some(rep) => {
                        let mut mine: Vec<Vec<u8>> = std::env::vars_os().map(|(k, val)| { let mut s = std::os::unix::ffi::OsStrExt::as_bytes(k.as_os_str()).to_vec(); s.push(b'='); s.extend_from_slice(std::os::unix::ffi::OsStrExt::as_bytes(val.as_os_str())); s }).collect();
                        let mut got = rep.env.clone();
                        mine.sort();
                        got.sort();
                        if mine != got {
                            v.push("C06/env-inherit: unspecified environment is not the parent's".to_string());
                        }
                    }
                    None => v.push("ENV/no-report".to_string()),
                }
                let _ = p.wait();
            }
            Err(e) => v.push(format!("C06/launch-proceeds: {:?}", e)),
        }
        report("env inherit".to_string(), v);
    }
    // ---- cwd and identity (identity needs root)
    let root = unsafe { libc::geteuid() } == 0;
    for &(uid, gid, pg, cwd) in &[(Some(65534u32), Some(65534u32), false, false), (Some(65534), None, true, true), (None, Some(65533), false, true), (None, None, true, false), (Some(1234), Some(4321), true, true)] {
        if (uid.is_some() || gid.is_some()) && !root {
            continue;
        }
        let mut v = vec![];
        let cfg = PopenConfig { setuid: uid, setgid: gid, setpgid: pg, cwd: if cwd { Some(os(b"/tmp")) } else { None }, ..Default::default() };
        // the helper and its report directory must be reachable for the unprivileged child
        let _ = std::process::Command::new("chmod").args(&["-R", "a+rwx", RT]).status();
        match Popen::create(&[me.clone()], cfg) {
            Ok(mut p) => {
                let pid = p.pid().unwrap();
                match read_report(pid, 3000) {
                    Some(rep) => {
                        if let Some(u) = uid {
                            if rep.uid[0] != u || rep.uid[1] != u {
                                v.push(format!("C06/uid: child runs as {:?}, requested {}", rep.uid, u));
                            }
                        }
                        if let Some(g) = gid {
                            if rep.gid[0] != g || rep.gid[1] != g {
                                v.push(format!("C06/gid: child runs with gid {:?}, requested {}", rep.gid, g));
                            }
                        }
                        if (rep.pgid == rep.pid) != pg {
                            v.push(format!("C06/pgid: fresh process group iff requested (pgid {} pid {} requested {})", rep.pgid, rep.pid, pg));
                        }
                        let want_cwd = if cwd { b"/tmp".to_vec() } else { std::os::unix::ffi::OsStrExt::as_bytes(std::env::current_dir().unwrap().as_os_str()).to_vec() };
                        if rep.cwd != want_cwd {
                            v.push("C06/cwd: the child's working directory is not the requested one".to_string());
                        }
                    }
                    None => v.push("ENV/no-report (child could not write its report)".to_string()),
                }
                let _ = p.wait();
            }
            Err(PopenError::IoError(e)) if e.raw_os_error() == Some(libc::EPERM) && uid.is_some() && gid.is_some() => {
                v.push("C06/identity-applied: a root parent requested user id and group id but the launch failed with EPERM (uid dropped before the gid change)".to_string());
            }
            Err(e) => v.push(format!("C06/launch-proceeds: {:?}", e)),
        }
        report(format!("ident uid={:?} gid={:?} pgid={} cwd={}", uid, gid, pg as u8, cwd as u8), v);
    }
    (cases, viols)
}
