// Family "comm" (C01-C04): the real communicate loop against scripted children
// on the real kernel, under a watchdog (the driver kills us on a hang).
use super::*;
use std::collections::HashMap;
use std::time::{Duration, Instant};

fn g(tag: u8, p: usize) -> u8 {
    tag ^ (p as u8).wrapping_mul(37) ^ ((p >> 8) as u8).wrapping_mul(11)
}

fn spawn(mode: &str, i: bool, o: bool, e: bool) -> Popen {
    let r = |b: bool| if b { Redirection::Pipe } else { Redirection::None };
    Popen::create(&[selfreport_path(), mode.to_string()], PopenConfig { stdin: r(i), stdout: r(o), stderr: r(e), ..Default::default() }).unwrap()
}

#[allow(unreachable_code)]
pub fn run(_a: &HashMap<String, String>) -> (usize, usize) {
    let mut cases = 0;
    let mut viols = 0;
    let mut report = |name: &str, v: Vec<String>| {
        cases += 1;
        if v.is_empty() {
            println!("CASE {} OK", name);
        } else {
            viols += 1;
            for m in v {
                println!("CASE {} VIOL {}", name, m);
            }
        }
    };
    // 1. child lets its stdin pipe fill, closes stdin, stays silent: no time limit set
    {
        let mut p = spawn("closein:300:1200", true, true, false);
        let input = vec![b'x'; 1 << 20];
        let t0 = Instant::now();
        let r = p.communicate_bytes(Some(&input));
        let mut v = vec![];
        if let Err(e) = &r {
            if e.kind() == std::io::ErrorKind::TimedOut {
                v.push(format!("C04/no-timeout-without-limit: communicate without a time limit reported a timeout after {:?} (child closed its stdin on a full pipe; poll reports POLLERR only)", t0.elapsed()));
            }
        }
        let _ = p.terminate();
        let _ = p.wait();
        report("pollerr nolimit", v);
    }
    // 1b. same with a 30 s limit: must not report a timeout after 0.3 s
    {
        let mut p = spawn("closein:300:1200", true, true, false);
        let t0 = Instant::now();
        let r = p.communicate_start(Some(vec![b'x'; 1 << 20])).limit_time(Duration::from_secs(30)).read();
        let mut v = vec![];
        if let Err(e) = &r {
            if e.kind() == std::io::ErrorKind::TimedOut && t0.elapsed() < Duration::from_secs(29) {
                v.push(format!("C04/timeout-only-when-elapsed: a timeout was reported after {:?} with a 30 s limit", t0.elapsed()));
            }
        }
        let _ = p.terminate();
        let _ = p.wait();
        report("pollerr limit30s", v);
    }
    // 1c. a limit beyond 2^32 ms must not fire after a few milliseconds
    {
        let mut p = spawn("sleep:700", false, true, false);
        let t0 = Instant::now();
        let r = p.communicate_start(None).limit_time(Duration::from_millis((1u64 << 32) + 50)).read();
        let mut v = vec![];
        if let Err(e) = &r {
            if e.kind() == std::io::ErrorKind::TimedOut {
                v.push(format!("C04/timeout-only-when-elapsed: a limit of 2^32+50 ms reported a timeout after {:?}", t0.elapsed()));
            }
        }
        let _ = p.wait();
        report("huge limit", v);
    }
    // 2. flooding child, 300 ms limit: must return by the limit plus one bounded step
    {
        let mut p = spawn("flood", false, true, false);
        let t0 = Instant::now();
        let r = p.communicate_start(None).limit_time(Duration::from_millis(300)).read();
        let el = t0.elapsed();
        let mut v = vec![];
        if el > Duration::from_millis(600) {
            v.push(format!("C04/at-most-one-step-late: a 300 ms limit against a continuously writing child returned after {:?} ({} bytes captured)", el, match &r { Err(e) => e.capture.0.as_ref().map(|x| x.len()).unwrap_or(0), Ok(x) => x.0.as_ref().map(|x| x.len()).unwrap_or(0) }));
        }
        let _ = p.kill();
        let _ = p.wait();
        report("flood limit300ms", v);
    }
    // 2b. scenarios that must terminate: run under an in-process watchdog
    {
        use std::sync::mpsc;
        let scen: Vec<(&str, Box<dyn FnOnce() -> Vec<String> + Send>)> = vec![
            ("empty input", Box::new(|| {
                let mut p = spawn("cat", true, true, false);
                let r = p.communicate_bytes(Some(b""));
                let mut v = vec![];
                match r {
                    Ok((Some(o), None)) if o.is_empty() => (),
                    other => v.push(format!("C02/absent-iff-not-piped: empty input through cat gave {:?}", other.map(|(a, b)| (a.map(|x| x.len()), b.map(|x| x.len()))))),
                }
                let _ = p.wait();
                v
            })),
            ("child reads 512-byte blocks and writes twice as much", Box::new(|| {
                let mut p = spawn("dup512", true, true, false);
                let input = vec![b'q'; 1 << 20];
                let r = p.communicate_bytes(Some(&input));
                let mut v = vec![];
                match r {
                    Ok((Some(o), None)) if o.len() == 2 << 20 => (),
                    other => v.push(format!("C02/nothing-lost-or-added: expected 2 MiB back, got {:?}", other.map(|(a, _)| a.map(|x| x.len())))),
                }
                let _ = p.wait();
                v
            })),
            ("child closes its outputs, then consumes 1 MB of input", Box::new(|| {
                let path = format!("{}/count.{}", RT, std::process::id());
                let _ = std::fs::remove_file(&path);
                let mut p = spawn(&format!("closeout_count:{}", path), true, true, true);
                let input = vec![b'z'; 1_000_000];
                let r = p.communicate_bytes(Some(&input));
                let _ = p.wait();
                let mut v = vec![];
                let got: usize = std::fs::read_to_string(&path).ok().and_then(|s| s.trim().parse().ok()).unwrap_or(0);
                if r.is_ok() && got != 1_000_000 {
                    v.push(format!("C02/input-complete: the child received {} of 1000000 input bytes although communicate returned success", got));
                }
                let _ = std::fs::remove_file(&path);
                v
            })),
        ];
        for (name, f) in scen {
            let (tx, rx) = mpsc::channel();
            std::thread::spawn(move || {
                let _ = tx.send(f());
            });
            let v = match rx.recv_timeout(Duration::from_secs(20)) {
                Ok(v) => v,
                Err(_) => vec![format!("C01/terminates: the exchange did not finish within 20 s ({}): parent and child are deadlocked or the parent spins", name)],
            };
            report(name, v);
        }
    }
    // 2c. a timed-out read, then resumption: the undelivered rest of the input exactly once
    {
        let mut p = spawn("slowcat:400", true, true, false);
        let input: Vec<u8> = (0..300000usize).map(|i| g(3, i)).collect();
        let mut c = p.communicate_start(Some(input.clone())).limit_time(Duration::from_millis(100));
        let mut out = vec![];
        let mut v = vec![];
        let mut timed_out = 0;
        for _ in 0..200 {
            match c.read() {
                Ok((o, _)) => {
                    out.extend(o.unwrap_or_default());
                    break;
                }
                Err(e) => {
                    if e.kind() != std::io::ErrorKind::TimedOut {
                        v.push(format!("ENV/read-error {:?}", e.error));
                        break;
                    }
                    timed_out += 1;
                    out.extend(e.capture.0.clone().unwrap_or_default());
                }
            }
        }
        if timed_out == 0 {
            v.push("ENV/no-timeout-happened".to_string());
        }
        if out != input {
            v.push(format!("C04/resumes-exactly: after {} timed-out reads the child echoed {} bytes for {} supplied (first difference at {:?})", timed_out, out.len(), input.len(), out.iter().zip(input.iter()).position(|(a, b)| a != b)));
        }
        let _ = p.wait();
        report("timeout then resume", v);
    }
    // 3. echo: 1 MB through cat, byte exact
    {
        let mut p = spawn("cat", true, true, false);
        let input: Vec<u8> = (0..(1usize << 20)).map(|i| g(7, i)).collect();
        let r = p.communicate_bytes(Some(&input));
        let mut v = vec![];
        match r {
            Ok((Some(o), None)) => {
                if o != input {
                    v.push("C02/bytes-verbatim-in-order: 1 MB through cat came back different".to_string());
                }
            }
            other => v.push(format!("C02/absent-iff-not-piped: unexpected result shape {:?}", other.map(|(a, b)| (a.map(|x| x.len()), b.map(|x| x.len()))))),
        }
        let _ = p.wait();
        report("cat 1MB", v);
    }
    // 4. both streams, position-tagged, successive limited reads reassemble
    for &(nout, nerr, lim) in &[(100000usize, 70000usize, 4097usize), (5000, 5000, 1), (30000, 0, 4095), (0, 9000, 100)] {
        let mut p = spawn(&format!("pattern:{}:{}:1000", nout, nerr), false, true, true);
        let mut c = p.communicate_start(None);
        let (mut out, mut err) = (vec![], vec![]);
        let mut v = vec![];
        let mut lim_now = lim;
        loop {
            c = c.limit_size(lim_now);
            match c.read() {
                Ok((o, e)) => {
                    let o = o.unwrap_or_default();
                    let e = e.unwrap_or_default();
                    if o.len() + e.len() > lim_now {
                        v.push(format!("C03/at-most-n-bytes: {} bytes returned with limit {}", o.len() + e.len(), lim_now));
                    }
                    if o.is_empty() && e.is_empty() {
                        break;
                    }
                    out.extend(o);
                    err.extend(e);
                }
                Err(e) => {
                    v.push(format!("ENV/read-error: {:?}", e.error));
                    break;
                }
            }
            lim_now = if lim_now == lim { lim + 1 } else { lim };
            if out.len() + err.len() > nout + nerr + 10 {
                break;
            }
        }
        let wo: Vec<u8> = (0..nout).map(|i| g(0x5a, i)).collect();
        let we: Vec<u8> = (0..nerr).map(|i| g(0xc3, i)).collect();
        if out != wo || err != we {
            v.push(format!("C03/consecutive-pieces: concatenated pieces differ from what the child wrote (out {} / {} bytes, err {} / {})", out.len(), nout, err.len(), nerr));
        }
        let _ = p.wait();
        report(&format!("pattern out={} err={} limit={}", nout, nerr, lim), v);
    }
    // a hung scenario leaves a stuck thread and child behind: leave the process the hard way
    println!("SUMMARY family=comm cases={} violations={}", cases, viols);
    unsafe { libc::kill(0, 0) };
    std::process::exit(0);
}
