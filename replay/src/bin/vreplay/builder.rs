// Family "builder" (C16): the Exec builder against the self-reporting child:
// argument order, ordered environment edits, shell single argument, clone
// independence, loud refusal of a second stream setting / undeliverable input.
use super::*;
use std::collections::HashMap;
use std::panic::{catch_unwind, AssertUnwindSafe};
use subprocess::Exec;

fn env_of(rep: &Report, k: &str) -> Option<String> {
    let mut r = None;
    for e in &rep.env {
        let s = String::from_utf8_lossy(e).into_owned();
        if let Some(v) = s.strip_prefix(&format!("{}=", k)) {
            if r.is_none() {
                r = Some(v.to_string());
            }
        }
    }
    r
}

fn run_exec(e: Exec) -> Option<Report> {
    match e.popen() {
        Ok(mut p) => {
            let r = read_report(p.pid().unwrap(), 3000);
            let _ = p.wait();
            r
        }
        Err(_) => None,
    }
}

pub fn run(_a: &HashMap<String, String>) -> (usize, usize) {
    let mut cases = 0;
    let mut viols = 0;
    let mut report = |name: &str, v: Vec<String>| {
        cases += 1;
        if v.is_empty() {
            println!("CASE {} OK", name);
        } else {
            viols += 1;
            for m in v {
                println!("CASE {} VIOL {}", name, m);
            }
        }
    };
    let me = selfreport_path();
    std::env::set_var("VR_A", "0");
    std::env::remove_var("VR_B");
    // argument order
    {
        let mut v = vec![];
        match run_exec(Exec::cmd(&me).arg("x").args(&["y", "z"]).arg("w")) {
            Some(rep) => {
                let got: Vec<String> = rep.argv.iter().skip(1).map(|a| String::from_utf8_lossy(a).into_owned()).collect();
                if got != ["x", "y", "z", "w"] {
                    v.push(format!("C16/args-in-order: child saw {:?}", got));
                }
            }
            None => v.push("ENV/no-report".to_string()),
        }
        report("args order", v);
    }
    // ordered environment edits
    let seqs: Vec<(&str, Box<dyn Fn(Exec) -> Exec>, Option<&str>, Option<&str>)> = vec![
        ("rm-set", Box::new(|e: Exec| e.env_remove("VR_A").env("VR_A", "1").env("VR_B", "2")), Some("1"), Some("2")),
        ("set-set-rm", Box::new(|e: Exec| e.env("VR_B", "1").env_extend(&[("VR_B", "2")]).env_remove("VR_B")), Some("0"), None),
        ("clear-ext", Box::new(|e: Exec| e.env("VR_A", "1").env_clear().env_extend(&[("VR_B", "2")])), None, Some("2")),
        ("dup", Box::new(|e: Exec| e.env("VR_A", "1").env_extend(&[("VR_A", "2")]).env("VR_A", "3")), Some("3"), None),
        ("inherit", Box::new(|e: Exec| e), Some("0"), None),
    ];
    for (name, f, wa, wb) in seqs {
        let mut v = vec![];
        match run_exec(f(Exec::cmd(&me))) {
            Some(rep) => {
                let ga = env_of(&rep, "VR_A");
                let gb = env_of(&rep, "VR_B");
                if ga.as_deref() != wa || gb.as_deref() != wb {
                    v.push(format!("C16/env-edits-in-order: sequence {} gave VR_A={:?} VR_B={:?}, ordered-edits model says {:?} {:?}", name, ga, gb, wa, wb));
                }
            }
            None => v.push("ENV/no-report".to_string()),
        }
        report(&format!("env {}", name), v);
    }
    // shell: one single argument
    {
        let mut v = vec![];
        let e = Exec::shell("echo 'a  b' \"$0\"");
        let dbg = format!("{:?}", e);
        let out = e.stdout(Redirection::Pipe).capture();
        match out {
            Ok(c) => {
                if c.stdout_str() != "a  b sh\n" {
                    v.push(format!("C16/shell-single-argument: shell string not passed as one argument: output {:?} ({})", c.stdout_str(), dbg));
                }
            }
            Err(e) => v.push(format!("ENV/shell: {:?}", e)),
        }
        report("shell", v);
    }
    // clone independence
    {
        let mut v = vec![];
        let e = Exec::cmd(&me).arg("x").env("VR_B", "1");
        let c = e.clone();
        let e2 = e.arg("y").env("VR_B", "9").env_remove("VR_A");
        let _ = e2;
        match run_exec(c) {
            Some(rep) => {
                if rep.argv.len() != 2 || env_of(&rep, "VR_B").as_deref() != Some("1") || env_of(&rep, "VR_A").as_deref() != Some("0") {
                    v.push("C16/clone-independent: editing the original changed what the clone runs".to_string());
                }
            }
            None => v.push("ENV/no-report".to_string()),
        }
        report("clone", v);
    }
    // loud refusals
    {
        let mut v = vec![];
        std::panic::set_hook(Box::new(|_| {}));
        let refused = |f: Box<dyn FnOnce()>| catch_unwind(AssertUnwindSafe(f)).is_err();
        if !refused(Box::new(|| { let _ = Exec::cmd("c").stdout(Redirection::Pipe).stdout(Redirection::Merge); })) {
            v.push("C16/second-setting-refused: stdout Pipe then Merge was accepted silently".to_string());
        }
        if !refused(Box::new(|| { let _ = Exec::cmd("c").stderr(Redirection::Merge).stderr(Redirection::Pipe); })) {
            v.push("C16/second-setting-refused: stderr Merge then Pipe was accepted silently".to_string());
        }
        if !refused(Box::new(|| { let _ = Exec::cmd("c").stdout(Redirection::Merge).stdout(Redirection::Merge); })) {
            v.push("C16/second-setting-refused: stdout Merge then Merge was accepted silently".to_string());
        }
        if !refused(Box::new(|| {
            let f1 = std::fs::File::create(format!("{}/b1.{}", RT, std::process::id())).unwrap();
            let f2 = std::fs::File::create(format!("{}/b2.{}", RT, std::process::id())).unwrap();
            let _ = Exec::cmd("c").stderr(f1).stderr(f2);
        })) {
            v.push("C16/second-setting-refused: a second, different file for stderr was accepted silently".to_string());
        }
        if !refused(Box::new(|| { let _ = Exec::cmd("c").stdin(Redirection::Pipe).stdin("data"); })) {
            v.push("C16/second-setting-refused: stdin Pipe then data was accepted silently".to_string());
        }
        if !refused(Box::new(|| { let _ = Exec::cmd("true").stdin("data").join(); })) {
            v.push("C16/stdin-data-refused: join() accepted input data it cannot deliver".to_string());
        }
        if !refused(Box::new(|| { let _ = Exec::cmd("true").stdin("data").popen(); })) {
            v.push("C16/stdin-data-refused: popen() accepted input data it cannot deliver".to_string());
        }
        let _ = std::panic::take_hook();
        report("refusals", v);
    }
    (cases, viols)
}
