// Family "lookup" (C15): PATH resolution against real directories.  Candidates
// are copies of the self-reporting helper (it reports its own path), files
// without execute permission, directories, or missing.
use super::*;
use std::collections::HashMap;
use std::os::unix::fs::PermissionsExt;

pub fn run(_a: &HashMap<String, String>) -> (usize, usize) {
    let mut cases = 0;
    let mut viols = 0;
    let base = format!("{}/lk.{}", RT, std::process::id());
    let _ = std::fs::remove_dir_all(&base);
    let me = selfreport_path();
    // kinds per directory: x executable, n non-executable file, d directory, - missing
    let mk = |dir: &str, kind: char| {
        let d = format!("{}/{}", base, dir);
        std::fs::create_dir_all(&d).unwrap();
        let f = format!("{}/vcand", d);
        match kind {
            'x' => {
                std::fs::copy(&me, &f).unwrap();
            }
            'n' => {
                std::fs::copy(&me, &f).unwrap();
                std::fs::set_permissions(&f, std::fs::Permissions::from_mode(0o644)).unwrap();
            }
            'd' => {
                std::fs::create_dir_all(&f).unwrap();
            }
            _ => (),
        }
    };
    let old_path = std::env::var_os("PATH");
    let old_cwd = std::env::current_dir().unwrap();
    let layouts = ["x-", "-x", "xx", "nx", "dx", "--", "nn", "nd", "-n"];
    let shapes = ["A:B", ":A::B:", "A", "B:A", ":", "::", "A:", ":B"];
    for lay in layouts.iter() {
        let _ = std::fs::remove_dir_all(&base);
        let l: Vec<char> = lay.chars().collect();
        mk("A", l[0]);
        mk("B", l[1]);
        for shape in shapes.iter() {
            let a = format!("{}/A", base);
            let b = format!("{}/B", base);
            let path = shape.replace('A', &a).replace('B', &b);
            std::env::set_var("PATH", &path);
            // expected: first non-empty entry in order whose candidate is executable
            let mut want: Option<String> = None;
            let mut last_err = libc::ENOENT;
            let mut any = false;
            for ent in path.split(':').filter(|e| !e.is_empty()) {
                any = true;
                let kind = if ent == a { l[0] } else { l[1] };
                match kind {
                    'x' => {
                        want = Some(format!("{}/vcand", ent));
                        break;
                    }
                    'n' | 'd' => last_err = libc::EACCES,
                    _ => last_err = libc::ENOENT,
                }
            }
            let _ = any;
            let mut v = vec![];
            // run from an unrelated cwd so that an empty entry meaning "current directory" would be visible
            std::env::set_current_dir(&a).unwrap();
            let res = Popen::create(&["vcand"], PopenConfig::default());
            std::env::set_current_dir(&old_cwd).unwrap();
            match res {
                Ok(mut p) => {
                    let rep = read_report(p.pid().unwrap(), 1500);
                    let _ = p.wait();
                    match (&want, rep) {
                        (Some(w), Some(rep)) => {
                            if rep.exe != w.as_bytes() {
                                v.push(format!("C15/candidate-order: {} ran instead of {}", String::from_utf8_lossy(&rep.exe), w));
                            }
                        }
                        (None, Some(rep)) => v.push(format!("C15/never-runs-something-else: {} ran although no PATH entry holds an executable candidate", String::from_utf8_lossy(&rep.exe))),
                        (None, None) => v.push("C15/never-ok-without-exec: a handle was returned although nothing could be started (the forked child fell through into the caller's code)".to_string()),
                        (Some(_), None) => v.push("ENV/no-report".to_string()),
                    }
                }
                Err(PopenError::IoError(e)) => {
                    if want.is_some() {
                        v.push(format!("C15/candidate-order: launch failed ({:?}) although an executable candidate exists", e.raw_os_error()));
                    } else if e.raw_os_error() != Some(last_err) && !(last_err == libc::EACCES && e.raw_os_error() == Some(libc::EISDIR)) {
                        v.push(format!("C15/os-error-of-last-candidate: got {:?}, last candidate's error is {}", e.raw_os_error(), last_err));
                    }
                }
                Err(e) => v.push(format!("C15/launch-fails-with-os-error: {:?}", e)),
            }
            cases += 1;
            if v.is_empty() {
                println!("CASE layout={} path={} OK", lay, shape);
            } else {
                viols += 1;
                for m in v {
                    println!("CASE layout={} path={} VIOL {}", lay, shape, m);
                }
            }
            // reap anything left (a child that fell through)
            loop {
                let mut st = 0;
                if unsafe { libc::waitpid(-1, &mut st, libc::WNOHANG) } <= 0 {
                    break;
                }
            }
        }
    }
    // a name with a slash is used as given, relative to the cwd, without search
    {
        let _ = std::fs::remove_dir_all(&base);
        mk("A", 'x');
        mk("B", 'x');
        std::env::set_var("PATH", format!("{}/B", base));
        let mut v = vec![];
        match Popen::create(&["A/vcand"], PopenConfig { cwd: Some(base.clone().into()), ..Default::default() }) {
            Ok(mut p) => {
                match read_report(p.pid().unwrap(), 1500) {
                    Some(rep) => {
                        if rep.exe != format!("{}/A/vcand", base).as_bytes() {
                            v.push("C15/slash-no-search: a name containing a slash was not used as given".to_string());
                        }
                    }
                    None => v.push("ENV/no-report".to_string()),
                }
                let _ = p.wait();
            }
            Err(e) => v.push(format!("C15/slash-no-search: {:?}", e)),
        }
        cases += 1;
        if v.is_empty() {
            println!("CASE slash OK");
        } else {
            viols += 1;
            for m in v {
                println!("CASE slash VIOL {}", m);
            }
        }
    }
    // the same rules apply to an explicitly named executable, whatever argv[0] looks like
    {
        let _ = std::fs::remove_dir_all(&base);
        mk("A", 'x');
        mk("B", '-');
        std::env::set_var("PATH", format!("{}/A", base));
        for &(exe_bare, argv0) in &[(true, "fancy/name"), (false, "bare")] {
            let exe = if exe_bare { "vcand".to_string() } else { format!("{}/A/vcand", base) };
            let mut v = vec![];
            std::env::set_current_dir(format!("{}/B", base)).unwrap();
            let res = Popen::create(&[argv0], PopenConfig { executable: Some(exe.clone().into()), ..Default::default() });
            std::env::set_current_dir(&old_cwd).unwrap();
            match res {
                Ok(mut p) => {
                    match read_report(p.pid().unwrap(), 1500) {
                        Some(rep) => {
                            if rep.exe != format!("{}/A/vcand", base).as_bytes() {
                                v.push(format!("C15/candidate-order: executable override {} with argv[0] {} ran {}", exe, argv0, String::from_utf8_lossy(&rep.exe)));
                            }
                        }
                        None => v.push("ENV/no-report".to_string()),
                    }
                    let _ = p.wait();
                }
                Err(e) => v.push(format!("C15/candidate-order: executable override {} with argv[0] {:?} was not resolved by the lookup rules of the executable itself: {:?}", exe, argv0, e)),
            }
            cases += 1;
            if v.is_empty() {
                println!("CASE exe_override bare={} OK", exe_bare as u8);
            } else {
                viols += 1;
                for m in v {
                    println!("CASE exe_override bare={} VIOL {}", exe_bare as u8, m);
                }
            }
        }
    }
    match old_path {
        Some(p) => std::env::set_var("PATH", p),
        None => std::env::remove_var("PATH"),
    }
    let _ = std::fs::remove_dir_all(&base);
    (cases, viols)
}
