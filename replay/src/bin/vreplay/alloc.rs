// Family "alloc" (C17): this binary's global allocator (see main.rs) records every
// allocation made in a forked child of this process (armed by a pthread_atfork
// child handler) by appending one byte to /verif/.work/rt/alloc.<parent pid>.
use super::*;
use std::collections::HashMap;
use std::ffi::OsString;
use std::os::unix::ffi::OsStringExt;

fn marks() -> u64 {
    std::fs::metadata(format!("{}/alloc.{}", RT, std::process::id())).map(|m| m.len()).unwrap_or(0)
}

pub fn run(_a: &HashMap<String, String>) -> (usize, usize) {
    let mut cases = 0;
    let mut viols = 0;
    let _ = std::fs::remove_file(format!("{}/alloc.{}", RT, std::process::id()));
    crate::arm_fork_observer();
    let me = selfreport_path();
    let dir = std::path::Path::new(&me).parent().unwrap().to_str().unwrap().to_string();
    let old_path = std::env::var_os("PATH");
    let mut scen: Vec<(String, Vec<OsString>, PopenConfig, Option<String>)> = vec![];
    // PATH shapes: longest entry last / first / only one entry; command found in the last entry or nowhere
    for (name, path, cmd) in [
        ("longest-last-found", format!("/x:/yy:{}", dir), "selfreport"),
        ("single-entry-found", dir.clone(), "selfreport"),
        ("longest-last-missing", format!("/x:/yy:{}", dir), "no-such-program-xyz"),
        ("longest-first-missing", format!("{}:/yy:/x", dir), "no-such-program-xyz"),
        ("only-empty-entries", "::".to_string(), "selfreport"),
    ] {
        scen.push((format!("path {}", name), vec![cmd.into()], PopenConfig::default(), Some(path)));
    }
    scen.push(("cwd with NUL".to_string(), vec![me.clone().into()], PopenConfig { cwd: Some(OsString::from_vec(b"a\0b".to_vec())), ..Default::default() }, None));
    scen.push(("bad cwd, three pipes".to_string(), vec![me.clone().into()], PopenConfig { cwd: Some("/nonexistent".into()), stdin: Redirection::Pipe, stdout: Redirection::Pipe, stderr: Redirection::Pipe, ..Default::default() }, None));
    scen.push(("plain success with env".to_string(), vec![me.clone().into(), "arg".into()], PopenConfig { env: Some(vec![("A".into(), "1".into())]), stdout: Redirection::Pipe, ..Default::default() }, None));
    for (name, argv, cfg, path) in scen {
        if let Some(p) = &path {
            std::env::set_var("PATH", p);
        }
        let before = marks();
        let res = Popen::create(&argv, cfg);
        let mut v = vec![];
        match res {
            Ok(mut p) => {
                p.stdin.take();
                let _ = p.wait();
            }
            Err(_) => (),
        }
        std::thread::sleep(std::time::Duration::from_millis(30));
        let after = marks();
        if after != before {
            v.push(format!("C17/no-alloc-in-child: {} heap allocation(s) in the forked child between fork and exec/_exit ({})", after - before, name));
        }
        cases += 1;
        if v.is_empty() {
            println!("CASE {} OK", name);
        } else {
            viols += 1;
            for m in v {
                println!("CASE {} VIOL {}", name, m);
            }
        }
        loop {
            let mut st = 0;
            if unsafe { libc::waitpid(-1, &mut st, libc::WNOHANG) } <= 0 {
                break;
            }
        }
    }
    match old_path {
        Some(p) => std::env::set_var("PATH", p),
        None => std::env::remove_var("PATH"),
    }
    let _ = std::fs::remove_file(format!("{}/alloc.{}", RT, std::process::id()));
    (cases, viols)
}
