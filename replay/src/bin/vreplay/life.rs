// Family "life" (C09, C10, C11): exit status truth and finality, signals,
// poll / wait_timeout timing, against real children.
use super::*;
use std::collections::HashMap;
use std::time::{Duration, Instant};
use subprocess::unix::PopenExt;
use subprocess::ExitStatus;

fn child(mode: &str) -> Popen {
    Popen::create(&[selfreport_path(), mode.to_string()], PopenConfig::default()).unwrap()
}

fn sh(cmd: &str) -> Popen {
    Popen::create(&["sh", "-c", cmd], PopenConfig::default()).unwrap()
}

pub fn run(_a: &HashMap<String, String>) -> (usize, usize) {
    let mut cases = 0;
    let mut viols = 0;
    let mut report = |name: String, v: Vec<String>| {
        cases += 1;
        if v.is_empty() {
            println!("CASE {} OK", name);
        } else {
            viols += 1;
            for m in v {
                println!("CASE {} VIOL {}", name, m);
            }
        }
    };
    // every exit code 0..=255
    {
        let mut v = vec![];
        for code in 0..=255u32 {
            let mut p = child(&format!("exit:{}", code));
            match p.wait() {
                Ok(ExitStatus::Exited(c)) if c == code => (),
                other => v.push(format!("C09/reported-status-is-truth: exit({}) reported as {:?}", code, other)),
            }
            if p.poll() != Some(ExitStatus::Exited(code)) || p.exit_status() != Some(ExitStatus::Exited(code)) || p.pid().is_some() {
                v.push(format!("C09/final-status-stable: after exit({}) a later query disagrees or pid() is still present", code));
            }
            if v.len() > 3 {
                break;
            }
        }
        report("exit codes 0..=255".to_string(), v);
    }
    // fatal signals
    {
        let mut v = vec![];
        for &sig in &[libc::SIGHUP, libc::SIGINT, libc::SIGQUIT, libc::SIGKILL, libc::SIGUSR1, libc::SIGUSR2, libc::SIGALRM, libc::SIGTERM, 34, 64] {
            let mut p = child("sleep:5000");
            read_report(p.pid().unwrap(), 2000);
            let _ = p.send_signal(sig);
            match p.wait() {
                Ok(ExitStatus::Signaled(s)) if s as i32 == sig => (),
                other => v.push(format!("C09/reported-status-is-truth: death by signal {} reported as {:?}", sig, other)),
            }
        }
        report("fatal signals".to_string(), v);
    }
    // external reaping: every first query, then signals
    for first in ["poll", "wait_timeout", "wait"].iter() {
        let mut v = vec![];
        let mut p = child("exit:3");
        let pid = p.pid().unwrap();
        std::thread::sleep(Duration::from_millis(100));
        let mut st = 0;
        unsafe { libc::waitpid(pid as i32, &mut st, 0) };
        let t0 = Instant::now();
        let got = match *first {
            "poll" => {
                let mut r = p.poll();
                // poll may need to be asked again, but must not stay None for ever
                let mut n = 0;
                while r.is_none() && n < 20 {
                    std::thread::sleep(Duration::from_millis(10));
                    r = p.poll();
                    n += 1;
                }
                r.map(Ok).unwrap_or(Err("poll() keeps returning None for a child reaped elsewhere".to_string()))
            }
            "wait_timeout" => match p.wait_timeout(Duration::from_millis(200)) {
                Ok(Some(s)) => Ok(s),
                Ok(None) => Err("wait_timeout() returned None for a child reaped elsewhere".to_string()),
                Err(e) => Err(format!("wait_timeout() returned an error: {:?}", e)),
            },
            _ => p.wait().map_err(|e| format!("wait() returned an error: {:?}", e)),
        };
        let _ = t0;
        match got {
            Ok(ExitStatus::Undetermined) => (),
            Ok(s) => v.push(format!("C09/status-is-truth: after a foreign reap {} reported {:?}", first, s)),
            Err(m) => v.push(format!("C09/wait-no-error: {}", m)),
        }
        if p.pid().is_some() {
            v.push("C09/pid-absent-when-finished: pid() still present after the child was found reaped".to_string());
        }
        // signals after the foreign reap was observed: must be no-ops returning Ok
        let r = p.terminate();
        if r.is_err() {
            v.push(format!("C10/no-signal-once-final: terminate() after an observed foreign reap tried to signal the pid ({:?})", r));
        }
        report(format!("foreign reap then {}", first), v);
    }
    // terminate / kill deliver exactly SIGTERM / SIGKILL; afterwards no-ops
    {
        let mut v = vec![];
        let mut p = child("sleep:5000");
        read_report(p.pid().unwrap(), 2000);
        let _ = p.terminate();
        match p.wait() {
            Ok(ExitStatus::Signaled(s)) if s as i32 == libc::SIGTERM => (),
            other => v.push(format!("C10/requested-signal: terminate() did not deliver SIGTERM: {:?}", other)),
        }
        if p.terminate().is_err() || p.kill().is_err() || p.send_signal(libc::SIGUSR1).is_err() {
            v.push("C10/ok-once-final: signalling a finished child did not return success".to_string());
        }
        let mut p = child("sleep:5000");
        read_report(p.pid().unwrap(), 2000);
        let _ = p.kill();
        match p.wait() {
            Ok(ExitStatus::Signaled(s)) if s as i32 == libc::SIGKILL => (),
            other => v.push(format!("C10/requested-signal: kill() did not deliver SIGKILL: {:?}", other)),
        }
        report("terminate/kill".to_string(), v);
    }
    // any operation, then drop: no zombie
    for op in ["kill", "terminate", "poll", "none"].iter() {
        let mut v = vec![];
        {
            let mut p = child("sleep:300");
            read_report(p.pid().unwrap(), 2000);
            match *op {
                "kill" => {
                    let _ = p.kill();
                }
                "terminate" => {
                    let _ = p.terminate();
                }
                "poll" => {
                    let _ = p.poll();
                }
                _ => (),
            }
            drop(p);
        }
        std::thread::sleep(Duration::from_millis(50));
        if !no_children() {
            v.push(format!("C12/drop-reaps: after {} + drop of a non-detached Popen a child is left unreaped (zombie)", op));
            loop {
                let mut st = 0;
                if unsafe { libc::waitpid(-1, &mut st, 0) } <= 0 {
                    break;
                }
            }
        }
        report(format!("{} then drop", op), v);
    }
    // a blocking wait interrupted by a signal handler (EINTR) must not turn into a status
    {
        let mut v = vec![];
        extern "C" fn on_usr2(_s: libc::c_int) {}
        unsafe {
            let mut sa: libc::sigaction = std::mem::zeroed();
            sa.sa_sigaction = on_usr2 as extern "C" fn(libc::c_int) as usize;
            sa.sa_flags = 0;
            libc::sigemptyset(&mut sa.sa_mask);
            libc::sigaction(libc::SIGUSR2, &sa, std::ptr::null_mut());
        }
        let t0 = Instant::now();
        let mut p = child("sleep:1500");
        let me = unsafe { libc::pthread_self() } as usize;
        let poker = std::thread::spawn(move || {
            std::thread::sleep(Duration::from_millis(300));
            unsafe { libc::pthread_kill(me as libc::pthread_t, libc::SIGUSR2) };
        });
        let first = p.wait();
        let _ = poker.join();
        if let Ok(st) = first {
            if t0.elapsed() < Duration::from_millis(1200) {
                v.push(format!("C09/no-status-while-child-runs: wait() interrupted by a signal reported {:?} after {:?} while the child was still running", st, t0.elapsed()));
            }
        }
        let fin = p.wait();
        if !matches!(fin, Ok(ExitStatus::Exited(0))) {
            v.push(format!("C09/reported-status-is-truth: after an interrupted wait the final status is {:?}, not Exited(0)", fin));
        }
        unsafe { libc::signal(libc::SIGUSR2, libc::SIG_DFL) };
        loop {
            let mut st = 0;
            if unsafe { libc::waitpid(-1, &mut st, 0) } <= 0 {
                break;
            }
        }
        report("interrupted wait".to_string(), v);
    }
    // signals reach exactly the child's pid, not its process group
    {
        let mut v = vec![];
        let marker = format!("{}/grp.{}", RT, std::process::id());
        let _ = std::fs::remove_file(&marker);
        let mut p = Popen::create(
            &["sh", "-c", &format!("(trap 'echo hit > {}' USR1; sleep 2) & sleep 3", marker)],
            PopenConfig { setpgid: true, ..Default::default() },
        )
        .unwrap();
        std::thread::sleep(Duration::from_millis(300));
        let _ = p.send_signal(libc::SIGUSR1);
        std::thread::sleep(Duration::from_millis(500));
        if std::path::Path::new(&marker).exists() {
            v.push("C10/only-the-child: a signal sent to the child also reached another process of its group".to_string());
        }
        let _ = p.kill();
        let _ = p.wait();
        let _ = std::fs::remove_file(&marker);
        report("signal scope".to_string(), v);
    }
    // a child that exits inside the last (clipped) back-off interval is still noticed at the deadline
    {
        let mut v = vec![];
        let mut stale = 0;
        for _ in 0..2 {
            let mut p = child("sleep:245");
            // status checks fall at 0,1,3,7,15,31,63,127,227 and 326 ms
            if let Ok(None) = p.wait_timeout(Duration::from_millis(326)) {
                stale += 1;
            }
            let _ = p.wait();
        }
        if stale == 2 {
            v.push("C11/none-is-fresh: wait_timeout(326 ms) reported 'still running' for a child that exited ~80 ms before the deadline (no status check after the last sleep)".to_string());
        }
        report("exit in the last interval".to_string(), v);
    }
    // poll never blocks; wait_timeout accuracy
    {
        let mut v = vec![];
        let mut p = child("sleep:700");
        let t0 = Instant::now();
        let r = p.poll();
        if t0.elapsed() > Duration::from_millis(50) || r.is_some() {
            v.push(format!("C11/poll-never-blocks: poll() took {:?} / returned {:?} on a running child", t0.elapsed(), r));
        }
        let t0 = Instant::now();
        let r = p.wait_timeout(Duration::from_millis(200));
        let el = t0.elapsed();
        if !matches!(r, Ok(None)) || el < Duration::from_millis(200) || el > Duration::from_millis(330) {
            v.push(format!("C11/none-not-early: wait_timeout(200ms) on a running child returned {:?} after {:?}", r.map_err(|_| ()), el));
        }
        let t0 = Instant::now();
        let r = p.wait_timeout(Duration::from_secs(30));
        let el = t0.elapsed();
        if !matches!(r, Ok(Some(_))) || el > Duration::from_millis(500 + 250) {
            v.push(format!("C11/sleep-capped: exit noticed {:?} after wait_timeout started (child exits ~0.5 s in)", el));
        }
        report("poll/wait_timeout".to_string(), v);
    }
    // late exit inside a long wait: noticed within ~0.1 s
    {
        let mut v = vec![];
        let mut p = child("sleep:2200");
        let t0 = Instant::now();
        let r = p.wait_timeout(Duration::from_secs(30));
        let el = t0.elapsed();
        if !matches!(r, Ok(Some(_))) || el > Duration::from_millis(2200 + 400) {
            v.push(format!("C11/sleep-capped: a child exiting after 2.2 s was reported after {:?}", el));
        }
        report("late exit".to_string(), v);
    }
    // durations beyond 2^32 ms
    {
        let mut v = vec![];
        let mut p = child("sleep:400");
        let t0 = Instant::now();
        let r = p.wait_timeout(Duration::from_millis((1u64 << 32) + 20));
        if matches!(r, Ok(None)) {
            v.push(format!("C11/none-not-early: wait_timeout(2^32+20 ms) reported 'still running' after {:?}", t0.elapsed()));
        }
        let _ = p.wait();
        report("huge duration".to_string(), v);
    }
    let _ = sh;
    (cases, viols)
}
