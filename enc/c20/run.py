#!/usr/bin/env python3
"""C20: Windows command-line assembly round-trips under the Microsoft parsing rules.

Solver-based bounded check (Kani 0.68 -> CBMC 6.11) of the REAL text of
`popen::os::assemble_cmdline` and `popen::os::append_quoted` (cfg(windows), so
never compiled on this host).  On every call the two items are re-extracted
from /repo/src/popen.rs, pasted unchanged behind a tiny shim (OsString/OsStr as
u16 sequences, win32::ERROR_BAD_PATHNAME, an array-backed `Vec` under Kani) and
checked against a reference parser written from the documented Microsoft rules.
A failing check is only reported as "fail" after the concrete argv was replayed
on a native build of the same text (std Vec) and judged by an independent
Python implementation of the parsing rules.

    run(tier, seed) -> dict        tier in {"quick", "thorough"}
    selftest()      -> dict        three textual mutations must be reported "fail"
"""
import concurrent.futures
import hashlib
import itertools
import json
import os
import queue
import random
import re
import shutil
import subprocess
import sys
import time

REPO_SRC = "/repo/src/popen.rs"
WORK = "/verif/.work/c20"
ENGINE = "kani 0.68 -> cbmc 6.11"
FUNCTIONS = [
    "popen::os::assemble_cmdline (cfg(windows), extracted)",
    "popen::os::append_quoted (cfg(windows), extracted)",
]
ULIMIT_KB = 14000000
MAX_PAR = 8

SP, TAB, NL, VT, DQ, BS = 32, 9, 10, 11, 34, 92

ASSUMPTIONS = [
    "argv[0] contains no '\"' (the program-name rule has no way to escape a quote)",
    "if argv[0] needs quoting (is empty or contains space/tab/newline/vtab) it does not end in a "
    "backslash (the program-name rule does not un-double backslashes before the closing quote)",
    "OsString/OsStr are modelled as arbitrary u16 sequences: on Windows (WTF-8) "
    "encode_wide(from_wide(w)) == w for every w, including unpaired surrogates",
    "win32::ERROR_BAD_PATHNAME == 161 (winerror.h)",
    "reference parser: argv[0] by the program-name rule (leading quote: up to next quote, no "
    "backslash processing; else up to first space/tab); further arguments by the documented "
    "MSVCRT/UCRT parse_cmdline rules with the post-2008 convention that \"\" inside a quoted "
    "region is one literal quote and quoting continues; assemble_cmdline never emits that "
    "form for the checked inputs (any disagreement would show as a roundtrip failure)",
    "bounded: only the listed concrete argument-length vectors are covered; every unit ranges "
    "over all 65536 values; non-empty argv only",
    "inside the model checker the name `Vec` in the extracted text is bound to a fixed-capacity "
    "array-backed model (new/push/extend/len/index/deref/collect/by-value iteration; exceeding the "
    "capacity is an assertion failure, never a truncation) because std's heap Vec with a symbolic "
    "length is intractable for CBMC; the native replayer and samples run the same text on std's Vec",
    "loop bounds are passed per loop (--cbmc-args --unwind/--unwindset, ids read from the GOTO binary) "
    "instead of one #[kani::unwind(N)], with unwinding assertions on; Kani's assertion "
    "reachability instrumentation is off (--no-assertion-reach-checks), vacuity is covered by the "
    "explicit kani::cover! witnesses",
]

# --------------------------------------------------------------------------
# 1. extraction of the real source text (Rust-lexer-aware brace matching)
# --------------------------------------------------------------------------


def _skip_noncode(s, i):
    """If s[i] starts a comment / string / char literal return index after it, else None."""
    n = len(s)
    c = s[i]
    if c == "/" and i + 1 < n and s[i + 1] == "/":
        j = s.find("\n", i)
        return n if j < 0 else j
    if c == "/" and i + 1 < n and s[i + 1] == "*":
        depth, j = 1, i + 2
        while j < n and depth:
            if s.startswith("/*", j):
                depth += 1
                j += 2
            elif s.startswith("*/", j):
                depth -= 1
                j += 2
            else:
                j += 1
        return j
    if c == "r" and i + 1 < n and s[i + 1] in '#"' and (i == 0 or not (s[i - 1].isalnum() or s[i - 1] == "_")):
        j = i + 1
        h = 0
        while j < n and s[j] == "#":
            h += 1
            j += 1
        if j < n and s[j] == '"':
            end = s.find('"' + "#" * h, j + 1)
            return n if end < 0 else end + 1 + h
        return None
    if c == '"':
        j = i + 1
        while j < n:
            if s[j] == "\\":
                j += 2
            elif s[j] == '"':
                return j + 1
            else:
                j += 1
        return n
    if c == "'":
        if i + 1 < n and s[i + 1] == "\\":
            j = i + 2
            j += 1  # escaped char
            while j < n and s[j] != "'":
                j += 1
            return j + 1
        if i + 2 < n and s[i + 2] == "'":
            return i + 3
        return i + 1  # lifetime
    return None


def _match_brace(s, open_idx):
    """s[open_idx] == '{'; return index of the matching '}' or -1."""
    assert s[open_idx] == "{"
    depth, i, n = 0, open_idx, len(s)
    while i < n:
        j = _skip_noncode(s, i)
        if j is not None:
            i = j
            continue
        if s[i] == "{":
            depth += 1
        elif s[i] == "}":
            depth -= 1
            if depth == 0:
                return i
        i += 1
    return -1


def _find_code(s, pat, start, end):
    """All match objects of regex `pat` in s[start:end] that begin in code (not comment/string)."""
    out = []
    i = start
    code_spans = []
    seg_start = start
    while i < end:
        j = _skip_noncode(s, i)
        if j is not None:
            code_spans.append((seg_start, i))
            i = j
            seg_start = j
        else:
            i += 1
    code_spans.append((seg_start, end))
    rx = re.compile(pat)
    for m in rx.finditer(s, start, end):
        if any(a <= m.start() < b for a, b in code_spans):
            out.append(m)
    return out


def extract(path=REPO_SRC):
    """Return {'ok':True,'assemble':txt,'append':txt,'lines':{...}} or {'ok':False,'reason':...}."""
    try:
        with open(path, encoding="utf-8") as f:
            src = f.read()
    except OSError as e:
        return {"ok": False, "reason": "cannot read %s: %s" % (path, e)}
    heads = _find_code(src, r"#\[cfg\(windows\)\]\s*\nmod os \{", 0, len(src))
    if len(heads) != 1:
        return {"ok": False, "reason": "expected exactly one `#[cfg(windows)] mod os {` block, found %d" % len(heads)}
    ob = heads[0].end() - 1
    cb = _match_brace(src, ob)
    if cb < 0:
        return {"ok": False, "reason": "unbalanced braces in windows `mod os`"}
    res = {"ok": True, "lines": {}}
    for key, name in (("assemble", "assemble_cmdline"), ("append", "append_quoted")):
        ms = _find_code(src, r"\bfn\s+%s\b" % name, ob, cb)
        if len(ms) != 1:
            return {"ok": False, "reason": "expected exactly one `fn %s` in windows mod os, found %d" % (name, len(ms))}
        st = ms[0].start()
        i = st
        bo = -1
        while i < cb:
            j = _skip_noncode(src, i)
            if j is not None:
                i = j
                continue
            if src[i] == "{":
                bo = i
                break
            if src[i] == ";":
                break
            i += 1
        if bo < 0:
            return {"ok": False, "reason": "`fn %s` has no body" % name}
        be = _match_brace(src, bo)
        if be < 0 or be > cb:
            return {"ok": False, "reason": "unbalanced braces in `fn %s`" % name}
        res[key] = src[st:be + 1]
        res["lines"][name] = [src.count("\n", 0, st) + 1, src.count("\n", 0, be) + 1]
    res["sha256"] = hashlib.sha256((res["assemble"] + "\0" + res["append"]).encode()).hexdigest()
    return res


# --------------------------------------------------------------------------
# 2. generated Rust: shims + reference parser (shared by Kani crate and native binary)
# --------------------------------------------------------------------------

COMMON_RS = r'''// GENERATED by /verif/enc/c20/run.py -- do not edit.
// Shim so that the text of popen::os::{assemble_cmdline, append_quoted} compiles unchanged.
use std::io;
use std::ops::Deref;

// Under the model checker `Vec` (as named by the extracted text and by the shim) is bound to a
// fixed-capacity, array-backed model with the same observable behaviour for the operations the
// text uses.  std's heap Vec with a *symbolic* length makes every push a symbolic-offset byte
// update of an untyped heap object, which CBMC cannot digest; the native replayer uses std's Vec.
#[cfg(kani)]
pub use self::mvec::Vec;
#[cfg(kani)]
macro_rules! vec {
    () => {
        Vec::new()
    };
}
#[cfg(kani)]
pub mod mvec {
    use super::MODEL_CAP;
    /// Element types of the model: a constant filler for unused slots (avoids an init loop).
    pub trait Elem: Sized {
        const INIT: Self;
    }
    impl Elem for u16 {
        const INIT: u16 = 0;
    }
    impl<T: Elem> Elem for Vec<T> {
        const INIT: Vec<T> = Vec { buf: [T::INIT; MODEL_CAP], len: 0 };
    }
    pub struct Vec<T> {
        buf: [T; MODEL_CAP],
        len: usize,
    }
    impl<T: Elem> Vec<T> {
        #[inline]
        pub fn new() -> Vec<T> {
            Vec { buf: [T::INIT; MODEL_CAP], len: 0 }
        }
        #[inline]
        pub fn push(&mut self, x: T) {
            // exceeding the model capacity is a reported failure, never a silent truncation
            assert!(self.len < MODEL_CAP, "C20/model: Vec model capacity exceeded");
            self.buf[self.len] = x;
            self.len += 1;
        }
        #[inline]
        pub fn extend<I: IntoIterator<Item = T>>(&mut self, it: I) {
            let mut it = it.into_iter();
            while let Some(x) = it.next() {
                self.push(x);
            }
        }
    }
    impl<T> Vec<T> {
        #[inline]
        pub fn len(&self) -> usize {
            self.len
        }
        #[inline]
        pub fn is_empty(&self) -> bool {
            self.len == 0
        }
    }
    impl<T> std::ops::Deref for Vec<T> {
        type Target = [T];
        #[inline]
        fn deref(&self) -> &[T] {
            &self.buf[..self.len]
        }
    }
    impl<T> std::ops::Index<usize> for Vec<T> {
        type Output = T;
        #[inline]
        fn index(&self, i: usize) -> &T {
            assert!(i < self.len, "index out of bounds (Vec model)");
            &self.buf[i]
        }
    }
    impl<T: Elem> std::iter::FromIterator<T> for Vec<T> {
        fn from_iter<I: IntoIterator<Item = T>>(it: I) -> Vec<T> {
            let mut v = Vec::new();
            v.extend(it);
            v
        }
    }
    pub struct IntoIter<T> {
        v: Vec<T>,
        i: usize,
    }
    impl<T: Elem> Iterator for IntoIter<T> {
        type Item = T;
        #[inline]
        fn next(&mut self) -> Option<T> {
            if self.i < self.v.len {
                let x = std::mem::replace(&mut self.v.buf[self.i], T::INIT);
                self.i += 1;
                Some(x)
            } else {
                None
            }
        }
    }
    impl<T: Elem> IntoIterator for Vec<T> {
        type Item = T;
        type IntoIter = IntoIter<T>;
        #[inline]
        fn into_iter(self) -> IntoIter<T> {
            IntoIter { v: self, i: 0 }
        }
    }
}

pub struct OsString(pub Vec<u16>);
#[cfg(kani)]
impl mvec::Elem for OsString {
    const INIT: OsString = OsString(<Vec<u16> as mvec::Elem>::INIT);
}

/// Iterator returned by `encode_wide()`.  Index based (not pointer-range based) so that the
/// number of iterations is a plain integer comparison for the model checker.
pub struct EncodeWide<'a> {
    s: &'a [u16],
    i: usize,
}
impl<'a> Iterator for EncodeWide<'a> {
    type Item = u16;
    #[inline]
    fn next(&mut self) -> Option<u16> {
        if self.i < self.s.len() {
            let u = self.s[self.i];
            self.i += 1;
            Some(u)
        } else {
            None
        }
    }
    #[inline]
    fn size_hint(&self) -> (usize, Option<usize>) {
        let r = self.s.len() - self.i;
        (r, Some(r))
    }
}
#[repr(transparent)]
pub struct OsStr(pub [u16]);

impl OsStr {
    #[inline]
    pub fn from_units(s: &[u16]) -> &OsStr {
        // OsStr is repr(transparent) over [u16]
        unsafe { &*(s as *const [u16] as *const OsStr) }
    }
    #[inline]
    pub fn encode_wide(&self) -> EncodeWide<'_> {
        EncodeWide { s: &self.0, i: 0 }
    }
    #[inline]
    pub fn is_empty(&self) -> bool {
        self.0.is_empty()
    }
}
impl OsString {
    #[inline]
    pub fn from_wide(w: &[u16]) -> OsString {
        let mut v: Vec<u16> = Vec::new();
        let mut i = 0;
        while i < w.len() {
            v.push(w[i]);
            i += 1;
        }
        OsString(v)
    }
}
impl Deref for OsString {
    type Target = OsStr;
    #[inline]
    fn deref(&self) -> &OsStr {
        OsStr::from_units(&self.0)
    }
}
impl AsRef<OsStr> for OsString {
    #[inline]
    fn as_ref(&self) -> &OsStr {
        OsStr::from_units(&self.0)
    }
}
impl AsRef<OsStr> for OsStr {
    #[inline]
    fn as_ref(&self) -> &OsStr {
        self
    }
}
pub mod win32 {
    pub const ERROR_BAD_PATHNAME: u32 = 161;
}

// ---- the code under test, verbatim from /repo/src/popen.rs ----
include!("extracted.rs");

// ---- reference parser (Microsoft C runtime / CommandLineToArgvW rules) ----
const R_SP: u16 = 0x20;
const R_TAB: u16 = 0x09;
const R_DQ: u16 = 0x22;
const R_BS: u16 = 0x5c;

/// Parse `cl` into `out`; every argument is written followed by a 0 terminator (unambiguous
/// as long as `cl` contains no 0 unit, which the callers establish).  Returns units written.
/// Single pass, one loop, no look-behind: backslashes are emitted eagerly and
/// retracted when the run turns out to precede a quote.
///
/// Rules implemented:
///  * argv[0] (program name): if the line starts with '"', everything up to the next '"'
///    (no backslash processing); otherwise everything up to the first space/tab.
///  * other arguments: space/tab outside quotes separate arguments;
///    2n backslashes + '"' -> n backslashes, quote toggles the quoted region;
///    2n+1 backslashes + '"' -> n backslashes and a literal '"';
///    backslashes not followed by '"' are literal;
///    inside a quoted region '""' -> one literal '"', region continues (post-2008 CRT);
///    '""' on its own yields an empty argument.
pub fn parse_ms_core(cl: &[u16], out: &mut [u16]) -> usize {
    // `out` must hold at least cl.len() + 1 units (every input unit adds at most one output unit,
    // plus one final terminator); indexing is bounds-checked, so a too-small buffer panics.
    let mut o: usize = 0;
    // phase: 0 start, 1 quoted program name, 2 bare program name, 3 between args, 4 inside arg
    let mut phase: u8 = 0;
    let mut inq = false;
    let mut nbs: usize = 0;
    let mut skip = false;
    let n = cl.len();
    let mut i = 0;
    while i < n {
        let c = cl[i];
        i += 1;
        if skip {
            skip = false;
            continue;
        }
        if phase == 0 {
            if c == R_DQ {
                phase = 1;
                continue;
            }
            phase = 2;
        }
        if phase == 1 {
            if c == R_DQ {
                out[o] = 0;
                phase = 3;
            } else {
                out[o] = c;
            }
            o += 1;
            continue;
        }
        if phase == 2 {
            if c == R_SP || c == R_TAB {
                out[o] = 0;
                phase = 3;
            } else {
                out[o] = c;
            }
            o += 1;
            continue;
        }
        if phase == 3 {
            if c == R_SP || c == R_TAB {
                continue;
            }
            phase = 4;
            inq = false;
            nbs = 0;
        }
        // phase 4
        if c == R_BS {
            out[o] = c;
            o += 1;
            nbs += 1;
        } else if c == R_DQ {
            // keep floor(nbs/2) of the nbs backslashes already emitted
            o -= nbs - (nbs >> 1);
            if nbs & 1 == 1 {
                out[o] = R_DQ;
                o += 1;
            } else if inq && i < n && cl[i] == R_DQ {
                out[o] = R_DQ;
                o += 1;
                skip = true;
            } else {
                inq = !inq;
            }
            nbs = 0;
        } else if !inq && (c == R_SP || c == R_TAB) {
            out[o] = 0;
            o += 1;
            phase = 3;
            nbs = 0;
        } else {
            out[o] = c;
            o += 1;
            nbs = 0;
        }
    }
    if phase != 3 {
        out[o] = 0;
        o += 1;
    }
    o
}

#[cfg(not(kani))]
pub fn parse_ms_flat(cl: &[u16]) -> Vec<u16> {
    let mut buf: Vec<u16> = vec![0; cl.len() + 1];
    let n = parse_ms_core(cl, &mut buf);
    buf.truncate(n);
    buf
}

/// The same parser with the conventional result shape.
#[cfg(not(kani))]
pub fn parse_ms(cmdline: &[u16]) -> Vec<Vec<u16>> {
    let flat = parse_ms_flat(cmdline);
    let mut res: Vec<Vec<u16>> = Vec::new();
    let mut cur: Vec<u16> = Vec::new();
    for &u in flat.iter() {
        if u == 0 {
            res.push(std::mem::replace(&mut cur, Vec::new()));
        } else {
            cur.push(u);
        }
    }
    res
}
'''

KANI_LIB_HEAD = r'''// GENERATED by /verif/enc/c20/run.py -- do not edit.
#![allow(dead_code, unused_imports, unused_variables, unused_mut, unused_macros)]
/// capacity of the Vec model: longest possible command line of any harness in this crate + 1
pub const MODEL_CAP: usize = %(CAP)d;
include!("common.rs");

#[cfg(kani)]
mod harness {
    use super::*;

    const SP: u16 = 0x20;
    const TAB: u16 = 0x09;
    const NL: u16 = 0x0a;
    const VT: u16 = 0x0b;
    const DQ: u16 = 0x22;
    const BS: u16 = 0x5c;

    fn is_ws4(c: u16) -> bool {
        c == SP || c == TAB || c == NL || c == VT
    }

    /// `args`: the argument vector; `expect`: args flattened, each followed by 0.
    #[inline(never)]
    fn check(args: &[&[u16]], expect: &[u16], buf: &mut [u16], want: u8) {
        let mut has_nul = false;
        let mut k = 0;
        while k < args.len() {
            let a = args[k];
            let mut j = 0;
            while j < a.len() {
                if a[j] == 0 {
                    has_nul = true;
                }
                j += 1;
            }
            k += 1;
        }
        let mut argv: Vec<OsString> = Vec::new();
        let mut k = 0;
        while k < args.len() {
            argv.push(OsString::from_wide(args[k]));
            k += 1;
        }
        let r = assemble_cmdline(argv);
        if has_nul {
            assert!(r.is_err(), "C20/nul-rejected: argument containing NUL must be rejected");
            if let Err(e) = &r {
                assert!(
                    e.raw_os_error() == Some(win32::ERROR_BAD_PATHNAME as i32),
                    "C20/nul-rejected: error is ERROR_BAD_PATHNAME"
                );
            }
            kani::cover!(r.is_err(), "C20/cover-nul: NUL argument generated and rejected");
        } else {
            // assumptions on argv[0] (program-name rule cannot unescape)
            let a0 = args[0];
            let mut a0_quote = false;
            let mut a0_needs = a0.is_empty();
            let mut j = 0;
            while j < a0.len() {
                if a0[j] == DQ {
                    a0_quote = true;
                }
                if is_ws4(a0[j]) {
                    a0_needs = true;
                }
                j += 1;
            }
            kani::assume(!a0_quote);
            kani::assume(!(a0_needs && !a0.is_empty() && a0[a0.len() - 1] == BS));
            match &r {
                Err(_) => {
                    assert!(false, "C20/roundtrip: NUL-free argv must be accepted");
                }
                Ok(cl) => {
                    let units: &[u16] = &cl.0;
                    let mut cl_nul = false;
                    let mut j = 0;
                    while j < units.len() {
                        if units[j] == 0 {
                            cl_nul = true;
                        }
                        j += 1;
                    }
                    assert!(!cl_nul, "C20/roundtrip: command line contains no NUL");
                    assert!(
                        units.len() < buf.len(),
                        "C20/roundtrip: command line no longer than 2*units + 2 per argument + separators"
                    );
                    let got_len = parse_ms_core(units, buf);
                    let got: &[u16] = buf;
                    assert!(
                        got_len == expect.len(),
                        "C20/roundtrip: parsed argument count and total length match argv"
                    );
                    if got_len == expect.len() {
                        let mut same = true;
                        let mut j = 0;
                        while j < expect.len() {
                            if got[j] != expect[j] {
                                same = false;
                            }
                            j += 1;
                        }
                        assert!(same, "C20/roundtrip: parse_ms(assemble_cmdline(argv)) == argv");
                    }
                    // vacuity witness (one per harness; `want` is a constant chosen from the lengths)
                    let plain = expect.len() - 1; // units + separators if nothing were quoted
                    let quoted = units.len() > plain;
                    let mut bsq = false;
                    let mut bsq_trail = false;
                    let mut k = 1;
                    while k < args.len() {
                        let a = args[k];
                        let mut this_bsq = false;
                        let mut j = 0;
                        while j + 1 < a.len() {
                            if a[j] == BS && a[j + 1] == DQ {
                                this_bsq = true;
                            }
                            j += 1;
                        }
                        if this_bsq {
                            bsq = true;
                            if a[a.len() - 1] == BS {
                                bsq_trail = true;
                            }
                        }
                        k += 1;
                    }
                    if want == 0 {
                        kani::cover!(quoted, "C20/cover-quoted: quoting branch of append_quoted taken");
                    } else if want == 1 {
                        kani::cover!(
                            quoted && bsq,
                            "C20/cover-bsq: quoted argument with backslash before quote generated"
                        );
                    } else {
                        kani::cover!(
                            quoted && bsq_trail,
                            "C20/cover-bsq-trail: quoted argument with backslash before quote and trailing backslash generated"
                        );
                    }
                }
            }
        }
        std::mem::forget(r);
    }
'''

NATIVE_MAIN = r'''// GENERATED by /verif/enc/c20/run.py -- do not edit.
#![allow(dead_code, unused_imports, unused_variables, unused_mut)]
include!("common.rs");

fn units(s: &str) -> Vec<u16> {
    if s.is_empty() {
        return Vec::new();
    }
    s.split(',').map(|t| t.trim().parse::<u16>().expect("u16")).collect()
}
fn show(v: &[u16]) -> String {
    let p: Vec<String> = v.iter().map(|u| u.to_string()).collect();
    p.join(",")
}
fn main() {
    let a: Vec<String> = std::env::args().collect();
    if a.len() < 2 {
        eprintln!("usage: asm <arg>... | parse <cmdline>");
        std::process::exit(2);
    }
    if a[1] == "asm" {
        let argv: Vec<OsString> = a[2..].iter().map(|s| OsString::from_wide(&units(s))).collect();
        match assemble_cmdline(argv) {
            Ok(c) => println!("OK {}", show(&c.0)),
            Err(e) => println!("ERR {}", e.raw_os_error().unwrap_or(-1)),
        }
    } else if a[1] == "parse" {
        let cl = units(if a.len() > 2 { &a[2] } else { "" });
        let r = parse_ms(&cl);
        println!("N {}", r.len());
        for x in r.iter() {
            println!("A {}", show(x));
        }
    } else {
        std::process::exit(2);
    }
}
'''


def lens_name(lv):
    return "c20_len_" + "_".join(str(x) for x in lv)


def max_cmdline_len(lv):
    return sum(2 * l + 2 for l in lv) + (len(lv) - 1)


def unwind_for(lv):
    # default bound; longest loop: parser / NUL scan / copy of the command line
    # (<= max_cmdline_len iterations).  append_quoted's own loops get tighter bounds, see unwind_args.
    return max_cmdline_len(lv) + 2


COVER_NAMES = ["C20/cover-quoted", "C20/cover-bsq", "C20/cover-bsq-trail"]


def cover_level(lv):
    rest = lv[1:]
    if any(l >= 3 for l in rest):
        return 2
    if any(l >= 2 for l in rest):
        return 1
    return 0


def gen_harness(lv):
    name = lens_name(lv)
    # no #[kani::unwind]: bounds are given per loop on the command line (see unwind_args)
    out = ["    #[kani::proof]", "    fn %s() {" % name]
    exp = []
    for k, l in enumerate(lv):
        elems = ", ".join("kani::any::<u16>()" for _ in range(l))
        out.append("        let a%d: [u16; %d] = [%s];" % (k, l, elems))
        for j in range(l):
            exp.append("a%d[%d]" % (k, j))
        exp.append("0u16")
    out.append("        let expect: [u16; %d] = [%s];" % (len(exp), ", ".join(exp)))
    out.append("        let mut buf = [0u16; %d];" % (max_cmdline_len(lv) + 1))
    out.append("        check(&[%s], &expect, &mut buf, %d);" % (", ".join("&a%d[..]" % k for k in range(len(lv))), cover_level(lv)))
    out.append("    }")
    return "\n".join(out) + "\n"


def write_if_changed(path, text):
    try:
        with open(path, encoding="utf-8") as f:
            if f.read() == text:
                return False
    except OSError:
        pass
    os.makedirs(os.path.dirname(path), exist_ok=True)
    with open(path, "w", encoding="utf-8") as f:
        f.write(text)
    return True


def gen_crates(root, ext, lvs):
    """Write the Kani crate (root/kani) and the native replayer source (root/native)."""
    extracted = ("// extracted verbatim from %s (lines %s)\n" % (REPO_SRC, json.dumps(ext["lines"]))
                 + ext["assemble"] + "\n\n" + ext["append"] + "\n")
    kd = os.path.join(root, "kani")
    write_if_changed(os.path.join(kd, "Cargo.toml"),
                     '[package]\nname = "c20"\nversion = "0.1.0"\nedition = "2018"\n\n'
                     '[lib]\npath = "src/lib.rs"\n\n[dependencies]\n\n[workspace]\n')
    write_if_changed(os.path.join(kd, "src", "common.rs"), COMMON_RS)
    write_if_changed(os.path.join(kd, "src", "extracted.rs"), extracted)
    cap = max(max_cmdline_len(lv) for lv in lvs) + 1
    lib = KANI_LIB_HEAD.replace("%(CAP)d", str(cap)) + "\n" + "\n".join(gen_harness(lv) for lv in lvs) + "}\n"
    write_if_changed(os.path.join(kd, "src", "lib.rs"), lib)
    nd = os.path.join(root, "native")
    write_if_changed(os.path.join(nd, "common.rs"), COMMON_RS)
    write_if_changed(os.path.join(nd, "extracted.rs"), extracted)
    write_if_changed(os.path.join(nd, "main.rs"), NATIVE_MAIN)
    return kd, nd


# --------------------------------------------------------------------------
# 3. native replayer and the independent Python reference parser
# --------------------------------------------------------------------------


def build_native(nd):
    srcs = [os.path.join(nd, f) for f in ("main.rs", "common.rs", "extracted.rs")]
    h = hashlib.sha256()
    for p in srcs:
        with open(p, "rb") as f:
            h.update(f.read())
    stamp = os.path.join(nd, "c20native.sha")
    binp = os.path.join(nd, "c20native")
    try:
        with open(stamp) as f:
            if f.read() == h.hexdigest() and os.path.exists(binp):
                return binp, None
    except OSError:
        pass
    p = subprocess.run(["rustc", "--edition", "2018", "-O", "-o", binp, srcs[0]],
                       cwd=nd, capture_output=True, text=True, timeout=300)
    if p.returncode != 0:
        return None, "native build failed: " + p.stderr[-1500:]
    with open(stamp, "w") as f:
        f.write(h.hexdigest())
    return binp, None


def _enc(units):
    return ",".join(str(u) for u in units)


def _dec(s):
    s = s.strip()
    return [int(t) for t in s.split(",")] if s else []


def native_asm(binp, argv):
    """-> ('ok', [units]) | ('err', code) | ('crash', text)"""
    p = subprocess.run([binp, "asm"] + [_enc(a) for a in argv], capture_output=True, text=True, timeout=30)
    o = p.stdout.strip()
    if p.returncode != 0:
        return ("crash", (p.stderr or o)[-500:])
    if o.startswith("OK"):
        return ("ok", _dec(o[2:]))
    if o.startswith("ERR"):
        return ("err", int(o[3:].strip()))
    return ("crash", o[-500:])


def native_parse(binp, cl):
    p = subprocess.run([binp, "parse", _enc(cl)], capture_output=True, text=True, timeout=30)
    if p.returncode != 0:
        return None
    res = []
    for line in p.stdout.splitlines():
        if line.startswith("A"):
            res.append(_dec(line[1:]))
    return res


def py_parse_ms(cl):
    """Independent implementation, shaped after the C runtime's parse_cmdline (nested scanning with
    look-ahead), deliberately different in structure from the single-pass Rust reference."""
    cl = list(cl)
    n = len(cl)
    args = []
    p = 0
    # --- program name
    if p < n and cl[p] == DQ:
        p += 1
        q = p
        while q < n and cl[q] != DQ:
            q += 1
        args.append(cl[p:q])
        p = q + 1 if q < n else q
    else:
        q = p
        while q < n and cl[q] not in (SP, TAB):
            q += 1
        args.append(cl[p:q])
        p = q
    # --- remaining arguments
    while True:
        while p < n and cl[p] in (SP, TAB):
            p += 1
        if p >= n:
            break
        cur = []
        inquote = False
        while True:
            copychar = True
            numslash = 0
            while p < n and cl[p] == BS:
                p += 1
                numslash += 1
            if p < n and cl[p] == DQ:
                if numslash % 2 == 0:
                    if inquote and p + 1 < n and cl[p + 1] == DQ:
                        p += 1  # "" inside quotes: literal quote
                    else:
                        copychar = False
                        inquote = not inquote
                numslash //= 2
            cur.extend([BS] * numslash)
            if p >= n or (not inquote and cl[p] in (SP, TAB)):
                break
            if copychar:
                cur.append(cl[p])
            p += 1
        args.append(cur)
    return args


def _u(s):
    return [ord(c) for c in s]


def _s(units):
    try:
        return "".join(chr(u) if (32 <= u < 127) else "\\u{%x}" % u for u in units)
    except Exception:
        return repr(units)


# Microsoft's published examples ("Parsing C command-line arguments"), args-after-argv0 rule.
MS_EXAMPLES = [
    ('"a b c" d e', ["a b c", "d", "e"]),
    ('"ab\\"c" "\\\\" d', ['ab"c', "\\", "d"]),
    ('a\\\\\\b d"e f"g h', ["a\\\\\\b", "de fg", "h"]),
    ('a\\\\\\"b c d', ['a\\"b', "c", "d"]),
    ('a\\\\\\\\"b c" d e', ["a\\\\b c", "d", "e"]),
    ('"" x ""', ["", "x", ""]),
    ('a"b"" c d', ['ab" c d']),  # post-2008 "" rule (documented example)
]
PROGNAME_EXAMPLES = [
    ('"C:\\Program Files\\x\\" a', ["C:\\Program Files\\x\\", "a"]),
    ('C:\\dir\\prog.exe\ta', ["C:\\dir\\prog.exe", "a"]),
    ('""', [""]),
]
# argv -> assemble -> parse samples (cover-witness shaped)
ARGV_SAMPLES = [
    ["prog", "a b c", "d", "e"],
    ["prog", 'ab"c', "\\", "d"],
    ["prog", "a\\\\\\b", "de fg", "h"],
    ["prog", 'a\\"b', "c", "d"],
    ["prog", "a\\\\b c", "d", "e"],
    ["C:\\Program Files\\p.exe", "", "x\ty", "tr ail\\\\", '\\\\"', "nl\nvt\x0b"],
    ["", ""],
]


def sanity(binp):
    """Cross-check both reference parsers on fixed examples; returns (ok, problems, samples)."""
    problems = []
    samples = []
    for cl, want in MS_EXAMPLES:
        full = _u("x " + cl)
        w = [_u("x")] + [_u(a) for a in want]
        py = py_parse_ms(full)
        rs = native_parse(binp, full)
        if py != w:
            problems.append("python parser: %r -> %r, expected %r" % (cl, [_s(a) for a in py[1:]], want))
        if rs != w:
            problems.append("rust parser: %r -> %r, expected %r" % (cl, rs, want))
    for cl, want in PROGNAME_EXAMPLES:
        w = [_u(a) for a in want]
        py = py_parse_ms(_u(cl))
        rs = native_parse(binp, _u(cl))
        if py != w:
            problems.append("python parser (program name): %r -> %r" % (cl, py))
        if rs != w:
            problems.append("rust parser (program name): %r -> %r" % (cl, rs))
    for argv in ARGV_SAMPLES:
        av = [_u(a) for a in argv]
        k, cl = native_asm(binp, av)
        if k != "ok":
            samples.append({"argv": argv, "result": "%s %s" % (k, cl)})
            continue
        py = py_parse_ms(cl)
        rs = native_parse(binp, cl)
        if py != rs:
            problems.append("parsers disagree on %r: py=%r rust=%r" % (_s(cl), py, rs))
        samples.append({"argv": argv, "cmdline": _s(cl), "parses_back": py == av})
    return (not problems), problems, samples


def assumptions_hold(argv):
    if not argv:
        return False
    a0 = argv[0]
    if DQ in a0:
        return False
    needs = (len(a0) == 0) or any(u in (SP, TAB, NL, VT) for u in a0)
    if needs and a0 and a0[-1] == BS:
        return False
    return True


def replay(binp, argv):
    """Native replay of a candidate counterexample.  -> dict with 'confirmed' bool."""
    info = {"argv": argv, "assumptions_hold": assumptions_hold(argv)}
    k, v = native_asm(binp, argv)
    has_nul = any(0 in a for a in argv)
    info["native"] = k
    if k == "crash":
        info["detail"] = v
        info["confirmed"] = True
        info["kind"] = "native panic in assemble_cmdline"
        return info
    if has_nul:
        info["confirmed"] = (k != "err" or v != 161)
        info["kind"] = "nul-rejected"
        info["native_value"] = v
        return info
    if not info["assumptions_hold"]:
        info["confirmed"] = False
        info["kind"] = "outside assumptions"
        return info
    if k == "err":
        info["confirmed"] = True
        info["kind"] = "roundtrip: NUL-free argv rejected"
        info["native_value"] = v
        return info
    info["cmdline"] = v
    info["cmdline_str"] = _s(v)
    py = py_parse_ms(v)
    rs = native_parse(binp, v)
    info["python_parse"] = py
    info["rust_parse"] = rs
    info["parsers_agree"] = (py == rs)
    info["confirmed"] = (py != argv) and (py == rs)
    info["kind"] = "roundtrip"
    return info


# --------------------------------------------------------------------------
# 4. running Kani
# --------------------------------------------------------------------------

CHECK_RE = re.compile(
    r"Check (\d+): (\S+)\s*\n\s*- Status: (\w+)\s*\n\s*- Description: \"(.*)\"\s*\n(?:\s*- Location: (.*)\n)?")


def _sh(cmd, timeout_s):
    """Run a shell command in its own process group under the memory limit. -> (out, rc, timed_out)"""
    env = dict(os.environ)
    env["CARGO_NET_OFFLINE"] = "true"
    p = subprocess.Popen(["bash", "-c", "ulimit -v %d; %s" % (ULIMIT_KB, cmd)], stdout=subprocess.PIPE,
                         stderr=subprocess.STDOUT, text=True, env=env, start_new_session=True)
    try:
        out, _ = p.communicate(timeout=max(1.0, timeout_s))
        return out, p.returncode, False
    except subprocess.TimeoutExpired:
        try:
            os.killpg(p.pid, 9)
        except OSError:
            pass
        out, _ = p.communicate()
        return out, p.returncode, True


LOOP_RE = re.compile(r"^Loop (\S+):\s*\n\s*file (\S+) line (\d+)(?: column \d+)?(?: function (.*?))?\s*$", re.M)


def unwind_args(goto_file, kd, lv):
    """Per-loop bounds.  Default: longest possible command line + 2 (every loop of the shim, the
    parser and the harness walks a command line or something shorter).  The loops inside the
    extracted `append_quoted` get their own (sufficient) bounds derived from the longest argument L:
    `while` loops run <= L times, `for _ in 0..k` loops push <= 2L+1 backslashes.  Unwinding
    assertions stay on, so a bound that is too small shows up as a failed unwinding assertion
    (-> inconclusive), never as a silent truncation."""
    default = unwind_for(lv)
    p = subprocess.run(["cbmc", "--show-loops", goto_file], capture_output=True, text=True, timeout=120)
    loops = LOOP_RE.findall(p.stdout)
    if not loops:
        return None, "cbmc --show-loops found no loops in %s" % goto_file
    try:
        with open(os.path.join(kd, "src", "extracted.rs"), encoding="utf-8") as f:
            ext_lines = f.read().split("\n")
    except OSError as e:
        return None, str(e)
    L = max(lv) if lv else 0
    uw = []
    for lid, fil, line, fn in loops:
        if fil.endswith("src/extracted.rs") and (fn or "").strip() == "append_quoted":
            txt = ext_lines[int(line) - 1].strip() if 0 < int(line) <= len(ext_lines) else ""
            if txt.startswith("while "):
                uw.append("%s:%d" % (lid, L + 1))
            elif txt.startswith("for "):
                uw.append("%s:%d" % (lid, 2 * L + 2))
    args = "--unwind %d" % default
    if uw:
        args += " --unwindset " + ",".join(uw)
    return args, None


def run_kani(kd, root, slot, name, timeout_s, playback=False, lv=None):
    tgt = os.path.join(root, "target-%d" % slot)
    t0 = time.time()
    res = {"name": name, "wall": 0.0, "checks": [], "out": "", "timeout": False, "verdict": None}
    base = ("cd %s && exec cargo kani --harness harness::%s --exact --target-dir %s "
            "--no-assertion-reach-checks -Z unstable-options" % (kd, name, tgt))
    try:
        # step 1: GOTO binary only (a few seconds), to learn the loop identifiers
        out, rc, to = _sh(base + " --only-codegen", timeout_s)
        if to or rc != 0:
            res.update(out=out, rc=rc, timeout=to, wall=time.time() - t0, stage="codegen")
            return res
        import glob
        cands = glob.glob(os.path.join(tgt, "kani", "*", "debug", "build", "c20", "*", "out", "*harness*%s.out" % name))
        cands = [c for c in cands if not c.endswith(".symtab.out")]
        if not cands:
            res.update(error="GOTO binary of %s not found after codegen" % name, wall=time.time() - t0)
            return res
        goto = max(cands, key=os.path.getmtime)
        uargs, err = unwind_args(goto, kd, lv)
        if err:
            res.update(error=err, wall=time.time() - t0)
            return res
        res["unwind_args"] = uargs
        # step 2: verification
        cmd = base
        if playback:
            cmd += " -Z concrete-playback --concrete-playback=print"
        cmd += " --cbmc-args " + uargs
        out, rc, to = _sh(cmd, timeout_s - (time.time() - t0))
    except (OSError, subprocess.SubprocessError) as e:
        res.update(error="cannot run cargo kani / cbmc: %s" % e, wall=time.time() - t0)
        return res
    res.update(out=out, rc=rc, timeout=to, wall=time.time() - t0)
    res["checks"] = [{"id": m.group(2), "status": m.group(3), "desc": m.group(4).strip('"\\'), "loc": (m.group(5) or "").strip()}
                     for m in CHECK_RE.finditer(out)]
    m = re.search(r"VERIFICATION:- (SUCCESSFUL|FAILED)", out)
    res["verdict"] = m.group(1) if m else None
    res["symex"] = sum(float(x) for x in re.findall(r"Runtime Symex: ([0-9.eE+-]+)s", out))
    res["solver"] = sum(float(x) for x in re.findall(r"Runtime decision procedure: ([0-9.eE+-]+)s", out))
    res["sat_calls"] = len(re.findall(r"Runtime decision procedure:", out))
    m = re.search(r"Verification Time: ([0-9.]+)s", out)
    res["verif_time"] = float(m.group(1)) if m else None
    if playback:
        res["playback_units"] = parse_playback(out)
    return res


def parse_playback(out):
    """All concrete-playback tests printed for failing (non-cover) checks -> list of u16 lists.
    Every kani::any::<u16>() of a harness is one 2-byte little-endian vector, in program order."""
    res = []
    for blk in out.split("Concrete playback unit test for")[1:]:
        h = re.search(r"/// Check for `(\w+)`: (.*)", blk)
        if h and h.group(1) == "cover":
            continue
        m = re.search(r"let concrete_vals: Vec<Vec<u8>> = vec!\[(.*?)\n\s*\];", blk, re.S)
        if not m:
            continue
        by = []
        for v in re.findall(r"vec!\[([0-9,\s]*)\]", m.group(1)):
            by.extend(int(t) for t in v.replace(" ", "").split(",") if t)
        if len(by) % 2:
            continue
        units = [by[i] | (by[i + 1] << 8) for i in range(0, len(by), 2)]
        if units not in res:
            res.append(units)
    return res


def classify(res):
    """-> (kind, detail) kind in pass/fail/inconclusive; collects tagged failures."""
    if res.get("error"):
        return "inconclusive", res["error"]
    if res.get("timeout"):
        return "inconclusive", "timeout after %.0fs" % res["wall"]
    out = res["out"]
    if res.get("stage") == "codegen":
        tail = " | ".join(l for l in out.strip().splitlines()[-8:])
        return "inconclusive", "harness crate does not compile (extracted text no longer fits the shim?): " + tail[-700:]
    if res["verdict"] is None:
        tail = " | ".join(l for l in out.strip().splitlines()[-6:])
        if "error" in out and "could not compile" in out:
            return "inconclusive", "harness crate does not compile (extracted text changed shape?): " + tail[-600:]
        return "inconclusive", "no verdict (rc=%s; out of memory / crash?): %s" % (res.get("rc"), tail[-600:])
    checks = res["checks"]
    if not checks:
        return "inconclusive", "no per-check results parsed"
    unw = [c for c in checks if "unwinding assertion" in c["desc"] and c["status"] != "SUCCESS"]
    if unw:
        return "inconclusive", "unwinding assertion not proven (%d)" % len(unw)
    undet = [c for c in checks if c["status"] in ("UNDETERMINED", "UNKNOWN", "ERROR")]
    if undet:
        return "inconclusive", "UNDETERMINED checks: " + undet[0]["desc"]
    tagged = [c for c in checks if c["status"] == "FAILURE" and c["desc"].startswith("C20/")]
    if tagged:
        return "fail", tagged[0]["desc"]
    other = [c for c in checks if c["status"] == "FAILURE"]
    if other:
        # a failing implicit check (overflow, bounds, ...) inside the code under test or the shim
        return "fail-untagged", "%s @ %s" % (other[0]["desc"], other[0]["loc"])
    if res["verdict"] != "SUCCESSFUL":
        return "inconclusive", "VERIFICATION FAILED without failing check"
    return "pass", ""


def expected_covers(lv):
    cov = [COVER_NAMES[cover_level(lv)]]
    if sum(lv) > 0:
        cov.append("C20/cover-nul")
    return cov


def run_pool(kd, root, names, by_name, per_timeout, deadline, par):
    """Run harnesses on `par` slots (one target dir each).  Returns {name: res}."""
    slots = queue.Queue()
    for s in range(par):
        slots.put(s)
    results = {}

    def job(name):
        s = slots.get()
        try:
            left = deadline - time.time()
            if left < 20:
                return {"name": name, "error": "skipped: tier time budget exhausted", "wall": 0.0, "checks": [], "out": ""}
            return run_kani(kd, root, s, name, min(per_timeout, left), lv=by_name[name])
        finally:
            slots.put(s)

    with concurrent.futures.ThreadPoolExecutor(max_workers=par) as ex:
        futs = {ex.submit(job, n): n for n in names}
        for f in concurrent.futures.as_completed(futs):
            results[futs[f]] = f.result()
    return results


# --------------------------------------------------------------------------
# 5. tiers
# --------------------------------------------------------------------------


def length_vectors(tier):
    if tier == "quick":
        lvs = [(a,) for a in range(4)] + [(a, b) for a in range(4) for b in range(4)]
    else:
        lvs = [(a,) for a in range(5)] + [(a, b) for a in range(5) for b in range(5)]
        lvs += THOROUGH_3
    # expensive first so the pool packs well
    return sorted(lvs, key=lambda lv: (-(sum(lv) + max(lv)), lv))


# 3-argument vectors for the thorough tier (argv0 x arg1 x arg2), chosen to fit the budget:
# everything with at most 5 units in total (argv0 <= 2 units), plus four large ones up to 4 units/arg
THOROUGH_3 = [(a, b, c) for a in (0, 1, 2) for b in range(5) for c in range(5) if a + b + c <= 5]
THOROUGH_3 += [(0, 4, 4), (2, 3, 3), (1, 2, 4), (2, 4, 1)]


def base_result(tier, lvs):
    return {
        "harness": "c20", "kind": "proof", "status": "inconclusive", "reason": "",
        "engine": ENGINE, "queries": 0, "n_checks": 0,
        "stats": {"solver_s": 0.0, "symex_s": 0.0, "sat_calls": 0},
        "wall_s": 0.0,
        "bounds": {
            "tier": tier,
            "length_vectors": [list(lv) for lv in sorted(lvs)],
            "units": "every u16 unit symbolic over 0..=65535",
            "unwind_default": {lens_name(lv): unwind_for(lv) for lv in sorted(lvs)},
            "unwind_rule": "per loop via --cbmc-args: default = longest possible command line "
                           "(sum(2*len+2) + nargs-1) + 2; loops inside append_quoted: while -> maxlen+1, "
                           "for -> 2*maxlen+2; unwinding assertions on",
            "vec_model_capacity": max(max_cmdline_len(lv) for lv in lvs) + 1,
        },
        "decided_tags": [], "covers_sat": [], "samples": [], "functions": FUNCTIONS,
        "assumptions": ASSUMPTIONS, "tagged_fail": [],
    }


def run(tier="quick", seed=0, _root=None, _ext=None, _lvs=None, _budget=None):
    t0 = time.time()
    tier = tier if tier in ("quick", "thorough") else "quick"
    root = _root or WORK
    lvs = _lvs if _lvs is not None else length_vectors(tier)
    out = base_result(tier, lvs)
    out["seed"] = seed

    def done(status, reason):
        out["status"] = status
        out["reason"] = reason
        out["wall_s"] = round(time.time() - t0, 2)
        return out

    os.makedirs(root, exist_ok=True)
    ext = _ext or extract()
    if not ext.get("ok"):
        return done("inconclusive", "extraction: " + ext.get("reason", "?"))
    out["source"] = {"file": REPO_SRC, "lines": ext["lines"], "sha256": ext.get("sha256")}
    for tool in ("cargo", "rustc"):
        if not shutil.which(tool):
            return done("inconclusive", "%s not found" % tool)

    kd, nd = gen_crates(root, ext, lvs)

    # native replayer + reference-parser sanity
    binp, err = build_native(nd)
    if not binp:
        return done("inconclusive", err + " (extracted text no longer fits the shim?)")
    ok, problems, samples = sanity(binp)
    out["samples"] = samples
    if not ok:
        out["sanity_problems"] = problems[:10]
        return done("inconclusive", "reference parsers fail the fixed Microsoft examples / disagree: " + problems[0])

    # seeded native differential samples (cheap extra; never the basis of 'pass')
    rnd = random.Random(seed)
    alphabet = [SP, TAB, NL, VT, DQ, BS, BS, DQ, ord("a"), ord("b"), 0x3b1, 0xd800]
    diff_bad = None
    for _ in range(300):
        argv = [[rnd.choice(alphabet) for _ in range(rnd.randint(0, 5))] for _ in range(rnd.randint(1, 4))]
        if not assumptions_hold(argv):
            continue
        rp = replay(binp, argv)
        if rp.get("confirmed"):
            diff_bad = rp
            break
    out["native_random_samples"] = 300

    budget = _budget or (225 if tier == "quick" else 1440)
    per_timeout = 200 if tier == "quick" else 900
    deadline = t0 + budget
    names = [lens_name(lv) for lv in lvs]
    by_name = {lens_name(lv): lv for lv in lvs}
    results = run_pool(kd, root, names, by_name, per_timeout, deadline, MAX_PAR)

    n_checks = 0
    incon, fails, untagged = [], [], []
    tags_ok = {"C20/roundtrip": True, "C20/nul-rejected": True}
    tags_seen = {"C20/roundtrip": 0, "C20/nul-rejected": 0}
    covers = set()
    cover_missing = []
    for name in names:
        r = results[name]
        kind, detail = classify(r)
        out["stats"]["symex_s"] += r.get("symex") or 0.0
        out["stats"]["solver_s"] += (r.get("solver") or 0.0) if r.get("sat_calls") else (r.get("verif_time") or 0.0)
        out["stats"]["sat_calls"] += r.get("sat_calls") or (1 if r.get("verdict") else 0)
        decided = [c for c in r.get("checks", []) if c["status"] in ("SUCCESS", "FAILURE", "SATISFIED", "UNSATISFIABLE", "UNREACHABLE")]
        n_checks += len(decided)
        for c in r.get("checks", []):
            if c["status"] == "FAILURE":
                out["tagged_fail"].append({"desc": c["desc"], "loc": "%s [%s]" % (c["loc"], name)})
        if kind == "inconclusive":
            incon.append("%s: %s" % (name, detail))
            continue
        if kind == "fail":
            fails.append((name, detail))
        elif kind == "fail-untagged":
            untagged.append((name, detail))
        for c in r["checks"]:
            for tag in tags_ok:
                if c["desc"].startswith(tag + ":"):
                    tags_seen[tag] += 1
                    if c["status"] != "SUCCESS":
                        tags_ok[tag] = False
        sat = {c["desc"].split(":")[0] for c in r["checks"] if c["status"] == "SATISFIED"}
        for cv in expected_covers(by_name[name]):
            if cv in sat:
                covers.add(cv)
            else:
                cover_missing.append("%s: %s" % (name, cv))
    out["queries"] = out["n_checks"] = n_checks
    out["stats"]["solver_s"] = round(out["stats"]["solver_s"], 2)
    out["stats"]["symex_s"] = round(out["stats"]["symex_s"], 2)
    out["covers_sat"] = sorted(covers)
    out["per_harness_wall_s"] = {n: round(results[n].get("wall", 0.0), 1) for n in names}

    # ---- failures: mandatory native replay
    if fails or untagged:
        name, detail = (fails or untagged)[0]
        lv = by_name[name]
        pb = run_kani(kd, root, 0, name, per_timeout, playback=True, lv=lv)
        rp = None
        tried = []
        for units in (pb.get("playback_units") or []):
            if len(units) != sum(lv):
                continue
            argv, p = [], 0
            for l in lv:
                argv.append(units[p:p + l])
                p += l
            cand = replay(binp, argv)
            tried.append(cand)
            if cand.get("confirmed"):
                rp = cand
                break
        if rp is None and tried:
            rp = tried[0]
        out["replay"] = rp or {"confirmed": False, "detail": "no concrete values could be extracted from Kani's playback output"}
        if rp and rp.get("confirmed"):
            out["counterexample"] = rp["argv"]
            return done("fail", "%s in %s; natively reproduced: argv=%s -> cmdline %s parses to %s" % (
                detail, name, [_s(a) for a in rp["argv"]], rp.get("cmdline_str", rp.get("native")),
                [_s(a) for a in rp.get("python_parse", [])] if rp.get("python_parse") is not None else rp.get("native_value")))
        return done("inconclusive", "Kani reports %s in %s but the native replay did not confirm it" % (detail, name))
    if diff_bad:
        out["replay"] = diff_bad
        return done("inconclusive", "native random sample disagrees with the proof result (reference parser suspect): %s" % diff_bad["argv"])
    if incon:
        return done("inconclusive", "%d/%d harnesses undecided; first: %s" % (len(incon), len(names), incon[0]))
    if cover_missing:
        return done("inconclusive", "vacuity: cover not satisfied: " + "; ".join(cover_missing[:4]))
    for tag in tags_ok:
        if tags_seen[tag] == 0 or not tags_ok[tag]:
            return done("inconclusive", "no decided assertion for tag %s" % tag)
    # every harness had its own witnesses satisfied (checked above via cover_missing)
    if any(c in covers for c in COVER_NAMES):
        out["decided_tags"].append("C20/roundtrip")
    if "C20/cover-nul" in covers:
        out["decided_tags"].append("C20/nul-rejected")
    if len(out["decided_tags"]) != 2:
        return done("inconclusive", "vacuity: cover witnesses missing for some tag: have %s" % sorted(covers))
    return done("pass", "all %d harnesses (%d checks) verified; roundtrip and NUL rejection hold for every listed length vector" % (len(names), n_checks))


# --------------------------------------------------------------------------
# 6. mutation self-test
# --------------------------------------------------------------------------

MUTATIONS = [
    ("odd-backslashes-before-quote", "append", "num_backslashes * 2 + 1", "num_backslashes * 2", 1, (0, 2)),
    ("trailing-backslashes-not-doubled", "append", "0..num_backslashes * 2 {", "0..num_backslashes {", 1, (0, 2)),
    ("tab-not-quoted", "append", "|| c == '\\t' as u16", "", 1, (0, 1)),
]


def selftest():
    """Each mutation of a scratch copy of the extracted text must be reported as 'fail'."""
    ext = extract()
    if not ext.get("ok"):
        return {"ok": False, "reason": ext.get("reason")}
    res = {"ok": True, "mutants": []}
    for k, (name, which, old, new, cnt, lv) in enumerate(MUTATIONS):
        e = dict(ext)
        if e[which].count(old) != cnt:
            res["ok"] = False
            res["mutants"].append({"name": name, "status": "not-applicable", "reason": "pattern occurs %d times" % e[which].count(old)})
            continue
        e[which] = e[which].replace(old, new)
        r = run("quick", 0, _root=os.path.join(WORK, "mut-%d" % k), _ext=e, _lvs=[lv], _budget=600)
        m = {"name": name, "length_vector": list(lv), "status": r["status"], "reason": r["reason"],
             "counterexample": r.get("counterexample"), "wall_s": r["wall_s"]}
        res["mutants"].append(m)
        if r["status"] != "fail":
            res["ok"] = False
    return res


if __name__ == "__main__":
    a = sys.argv[1:]
    if a and a[0] == "selftest":
        print(json.dumps(selftest(), indent=1))
    else:
        tier = a[0] if a else "quick"
        seed = int(a[1]) if len(a) > 1 else 0
        r = run(tier, seed)
        print(json.dumps(r, indent=1))
