#!/usr/bin/env python3
"""C19 (per-word part): shell quoting of one word by Exec::display_escape.

Pipeline, executed on every call of run():
  1. rsync the repo to a scratch copy, dump the MIR of the lib with rustc nightly.
  2. Translate `nice_char` statement by statement (small MIR basic-block
     interpreter) into an SMT-LIB2 predicate; recognise `display_escape`
     structurally (decision tree over `Chars::all(nice_char)` / `str::is_empty`
     with leaves Cow::Borrowed(s) / Cow::Owned(format!(P0 {} P1, s.replace(A,B)))).
  3. Translation validation: the exact source text of display_escape is compiled
     natively and compared with the SMT model on the repo's test strings and on
     seeded random strings.
  4. Property query (bounded strings of code points) against an automaton of
     POSIX sh word parsing, decided by z3 and cross-checked by cvc5.
  5. Counterexamples are replayed with the native function and the real /bin/sh.
  6. SAT twins on every run; selftest() applies source mutations.

Anything outside the understood subset yields status "inconclusive" together
with the offending text - never a guess.
"""
import fcntl
import hashlib
import json
import os
import random
import re
import shutil
import subprocess
import sys
import tempfile
import time

WORK = "/verif/.work/c19"
Z3 = "/usr/bin/z3"
CVC5 = "/usr/bin/cvc5"
ENGINE = "MIR (rustc nightly) -> SMT-LIB2 -> z3 4.8.12 + cvc5 1.0"
FUNCTIONS = ["builder::exec::Exec::display_escape", "display_escape::nice_char"]
ALPHABET_DESC = "code points 0x1..0x10FFFF minus surrogates 0xD800..0xDFFF (no NUL)"
# Characters accepted bare by the sh automaton: the only ones that are in
# neither of POSIX XCU 2.2's "must be quoted" / "may need quoting" lists and
# that have no meaning for an sh word in argument position.
INERT = ("abcdefghijklmnopqrstuvwxyz" "ABCDEFGHIJKLMNOPQRSTUVWXYZ" "0123456789" "_-.,/+:@")


class Inconclusive(Exception):
    def __init__(self, reason, detail=None):
        Exception.__init__(self, reason)
        self.reason = reason
        self.detail = detail


# --------------------------------------------------------------------------
# small lexical helpers (shared by the MIR reader and the Rust source reader)
# --------------------------------------------------------------------------
CHAR_LIT = re.compile(r"'(?:\\(?:u\{[0-9a-fA-F_]+\}|x[0-9a-fA-F]{2}|.)|[^\\'])'", re.S)


def skip_literal(s, i):
    """If a "..." or '.' literal starts at s[i], return the index after it."""
    if s[i] == '"':
        j = i + 1
        while j < len(s) and s[j] != '"':
            j += 2 if s[j] == "\\" else 1
        return j + 1
    if s[i] == "'":
        m = CHAR_LIT.match(s, i)
        return m.end() if m else None
    return None


def split_top(s, sep=","):
    """Split at separators that are outside (), [], {} and literals."""
    out, depth, i, start = [], 0, 0, 0
    while i < len(s):
        j = skip_literal(s, i)
        if j is not None:
            i = j
            continue
        ch = s[i]
        if ch in "([{":
            depth += 1
        elif ch in ")]}":
            depth -= 1
        elif ch == sep and depth == 0:
            out.append(s[start:i].strip())
            start = i + 1
        i += 1
    last = s[start:].strip()
    if last or out:
        out.append(last)
    return [x for x in out if x != ""] if sep == "," else out


def unescape_rust(body, is_bytes):
    """Decode the inside of a Rust "..." / b"..." literal as printed by rustc.
    Returns a list of code points (str) or of byte values (bytes literal)."""
    out, i = [], 0
    simple = {"n": 10, "r": 13, "t": 9, "0": 0, "\\": 92, "'": 39, '"': 34}
    while i < len(body):
        ch = body[i]
        if ch != "\\":
            if is_bytes and ord(ch) > 127:
                raise Inconclusive("non-ASCII character in byte string constant", body)
            out.append(ord(ch))
            i += 1
            continue
        e = body[i + 1]
        if e in simple:
            out.append(simple[e])
            i += 2
        elif e == "x":
            out.append(int(body[i + 2:i + 4], 16))
            i += 4
        elif e == "u":
            j = body.index("}", i)
            out.append(int(body[i + 3:j].replace("_", ""), 16))
            i = j + 1
        elif e == "\n":  # line continuation in source literals
            i += 2
            while i < len(body) and body[i] in " \t\r\n":
                i += 1
        else:
            raise Inconclusive("unknown escape in string constant", body)
    return out


def parse_const_str(lit):
    """`"..."` -> ('str', [cps]) ; `b"..."` -> ('bytes', [bytes]); else None."""
    lit = lit.strip()
    if lit.startswith('b"') and lit.endswith('"'):
        return ("bytes", unescape_rust(lit[2:-1], True))
    if lit.startswith('"') and lit.endswith('"'):
        return ("str", unescape_rust(lit[1:-1], False))
    return None


def utf8(cps):
    return "".join(map(chr, cps)).encode("utf-8")


# --------------------------------------------------------------------------
# step 1: MIR of the current tree
# --------------------------------------------------------------------------
def sh_run(cmd, **kw):
    return subprocess.run(cmd, stdout=subprocess.PIPE, stderr=subprocess.PIPE, **kw)


def get_mir(repo):
    copy = os.path.join(WORK, "repo-copy")
    os.makedirs(copy, exist_ok=True)
    r = sh_run(["rsync", "-a", "--delete", "--exclude", "target", "--exclude", ".git",
                repo.rstrip("/") + "/", copy + "/"])
    if r.returncode != 0:
        raise Inconclusive("rsync of the repo failed", r.stderr.decode()[-400:])
    lib = os.path.join(copy, "src", "lib.rs")
    if not os.path.exists(lib):
        raise Inconclusive("no src/lib.rs in the repo copy")
    env = dict(os.environ, CARGO_TARGET_DIR=os.path.join(WORK, "target"))
    cmd = ["cargo", "+nightly", "rustc", "--offline", "--lib", "--", "-Zunpretty=mir",
           "-C", "debug-assertions=off", "-C", "overflow-checks=on"]
    out = ""
    for _ in range(2):
        os.utime(lib, None)  # the COPY only: forces rustc to run and print again
        r = sh_run(cmd, cwd=copy, env=env)
        if r.returncode != 0:
            raise Inconclusive("cargo rustc -Zunpretty=mir failed", r.stderr.decode()[-800:])
        out = r.stdout.decode("utf-8", "replace")
        if out.strip():
            break
    if not out.strip():
        raise Inconclusive("MIR dump is empty")
    with open(os.path.join(WORK, "mir.txt"), "w") as f:
        f.write(out)
    return out, copy


# --------------------------------------------------------------------------
# step 2a: MIR reader
# --------------------------------------------------------------------------
class Block:
    def __init__(self, n, cleanup, lines):
        self.n, self.cleanup = n, cleanup
        self.stmts, self.term = lines[:-1], lines[-1]


class Body:
    def __init__(self, text):
        self.text = text
        head = text.split("\n", 1)[0]
        self.header = head
        m = re.match(r"fn (.*)\((.*)\) -> (.*) \{$", head)
        if not m:
            raise Inconclusive("cannot parse MIR fn header", head)
        self.name, self.ret = m.group(1), m.group(3).strip()
        self.types = {}
        self.params = []
        for p in split_top(m.group(2)):
            pm = re.match(r"_(\d+): (.*)$", p)
            if not pm:
                raise Inconclusive("cannot parse MIR parameter", p)
            self.types[int(pm.group(1))] = pm.group(2).strip()
            self.params.append(int(pm.group(1)))
        for lm in re.finditer(r"^\s*let (?:mut )?_(\d+): (.*);$", text, re.M):
            self.types[int(lm.group(1))] = lm.group(2).strip()
        self.blocks = {}
        for bm in re.finditer(r"^    bb(\d+)( \(cleanup\))?: \{\n(.*?)\n    \}$", text, re.M | re.S):
            lines = [l.strip() for l in bm.group(3).split("\n")
                     if l.strip() and not l.strip().startswith("//")]
            for l in lines:
                if not l.endswith(";"):
                    raise Inconclusive("MIR statement spans several lines (unsupported)", l)
            self.blocks[int(bm.group(1))] = Block(int(bm.group(1)), bool(bm.group(2)),
                                                  [l[:-1] for l in lines])
        if 0 not in self.blocks:
            raise Inconclusive("no bb0 in MIR body", head)


def find_fn(mir, name_re, what):
    hits = [m for m in re.finditer(r"^fn [^\n]*" + name_re + r"[^\n]*\{$", mir, re.M)]
    if len(hits) != 1:
        raise Inconclusive("expected exactly one MIR body for %s, found %d" % (what, len(hits)),
                           "\n".join(h.group(0) for h in hits))
    start = hits[0].start()
    end = mir.find("\n}\n", start)
    if end < 0:
        raise Inconclusive("unterminated MIR body for " + what)
    nxt = re.compile(r"^fn |^static |^const ", re.M).search(mir, end + 3)
    tail = mir[end + 3: nxt.start() if nxt else len(mir)]
    return Body(mir[start:end + 2]), tail


def parse_allocs(tail):
    """alloc dumps printed after a body -> list of byte lists (None entries skipped)."""
    res = []
    for m in re.finditer(r"^alloc\d+ \(size: (\d+), align: \d+\) \{\n(.*?)^\}", tail, re.M | re.S):
        size, data, ok = int(m.group(1)), [], True
        for line in m.group(2).split("\n"):
            if not line.strip():
                continue
            parts = line.split("\u2502")
            hexpart = parts[1] if len(parts) == 3 else parts[0]
            for tok in hexpart.split():
                if re.fullmatch(r"[0-9a-f]{2}", tok):
                    data.append(int(tok, 16))
                else:
                    ok = False
        if ok and len(data) == size:
            res.append(data)
    return res


def split_call(text):
    """'FUNC(ARGS)' -> (FUNC, [args]) using the last top-level paren group."""
    if not text.endswith(")"):
        return None
    depth, i, open_at = 0, 0, None
    while i < len(text):
        j = skip_literal(text, i)
        if j is not None:
            i = j
            continue
        if text[i] == "(":
            if depth == 0:
                open_at = i
            depth += 1
        elif text[i] == ")":
            depth -= 1
        i += 1
    if depth != 0 or open_at is None:
        return None
    return text[:open_at], split_top(text[open_at + 1:-1])


CALL_SUFFIX = re.compile(r" -> \[return: bb(\d+), unwind[^\]]*\]$")


def parse_term(t):
    """Terminator -> tuple."""
    if t == "return":
        return ("return",)
    m = re.fullmatch(r"goto -> bb(\d+)", t)
    if m:
        return ("goto", int(m.group(1)))
    m = re.fullmatch(r"switchInt\((.*)\) -> \[(.*)\]", t)
    if m:
        targets, other = [], None
        for part in split_top(m.group(2)):
            k, v = part.split(": ")
            bb = int(v[2:])
            if k == "otherwise":
                other = bb
            else:
                targets.append((int(k), bb))
        return ("switch", m.group(1), targets, other)
    m = CALL_SUFFIX.search(t)
    if m:
        body = t[:m.start()]
        dm = re.fullmatch(r"drop\((_\d+)\)", body)
        if dm:
            return ("drop", int(m.group(1)))
        am = re.match(r"(_\d+) = (.*)$", body)
        if am:
            c = split_call(am.group(2))
            if c:
                return ("call", int(am.group(1)[1:]), c[0], c[1], int(m.group(1)))
    return ("other", t)


# --------------------------------------------------------------------------
# step 2b: nice_char  ->  SMT predicate (statement-by-statement interpreter)
# --------------------------------------------------------------------------
INT_W = {"u8": 8, "u16": 16, "u32": 32, "u64": 64, "u128": 128, "usize": 64,
         "i8": 8, "i16": 16, "i32": 32, "i64": 64, "i128": 128, "isize": 64}
ASCII_CLASSES = {  # documented ranges of the whitelisted char methods
    "is_ascii_alphanumeric": [(0x30, 0x39), (0x41, 0x5A), (0x61, 0x7A)],
    "is_ascii_alphabetic": [(0x41, 0x5A), (0x61, 0x7A)],
    "is_ascii_digit": [(0x30, 0x39)],
    "is_ascii_uppercase": [(0x41, 0x5A)],
    "is_ascii_lowercase": [(0x61, 0x7A)],
    "is_ascii": [(0x00, 0x7F)],
}


def bvlit(v, w):
    return "(_ bv%d %d)" % (v % (1 << w), w)


class NiceTranslator:
    """Symbolic execution of an acyclic MIR body over SMT terms."""

    def __init__(self, body):
        self.b = body
        self.calls_modelled = []
        self.inlined_compare = False
        if len(body.params) != 1 or body.types[body.params[0]] != "char" or body.ret != "bool":
            raise Inconclusive("nice_char has an unexpected signature", body.header)

    def ty(self, t):
        if t == "bool":
            return ("bool",)
        if t == "char":
            return ("bv", 32, False)
        if t in INT_W:
            return ("bv", INT_W[t], t[0] == "i")
        return None

    def bad(self, why, line):
        raise Inconclusive("nice_char: unsupported MIR (%s)" % why, line)

    # values: ("bool", term) | ("bv", term, width, signed) | ("ref", local)
    def const(self, lit, line):
        lit = lit.strip()
        if lit in ("true", "false"):
            return ("bool", lit)
        m = CHAR_LIT.fullmatch(lit)
        if m:
            cps = unescape_rust(lit[1:-1], False)
            if len(cps) != 1:
                self.bad("char constant", line)
            return ("bv", bvlit(cps[0], 32), 32, False)
        m = re.fullmatch(r"(-?\d+)_([ui](?:8|16|32|64|128|size))", lit)
        if m:
            w = INT_W[m.group(2)]
            return ("bv", bvlit(int(m.group(1)), w), w, m.group(2)[0] == "i")
        self.bad("constant", line)

    def place(self, p, env, line):
        p = p.strip()
        m = re.fullmatch(r"_(\d+)", p)
        if m:
            n = int(m.group(1))
            if n not in env:
                self.bad("read of unassigned local _%d" % n, line)
            return env[n]
        m = re.fullmatch(r"\(\*_(\d+)\)", p)
        if m:
            r = env.get(int(m.group(1)))
            if not r or r[0] != "ref":
                self.bad("deref of a non-reference", line)
            return self.place("_%d" % r[1], env, line)
        self.bad("place expression", line)

    def operand(self, o, env, line):
        o = o.strip()
        m = re.fullmatch(r"(?:copy|move) (.*)", o)
        if m:
            return self.place(m.group(1), env, line)
        m = re.fullmatch(r"const (.*)", o)
        if m:
            return self.const(m.group(1), line)
        self.bad("operand", line)

    def rvalue(self, r, env, line):
        m = re.fullmatch(r"&(?:mut )?(_\d+)", r)
        if m:
            return ("ref", int(m.group(1)[1:]))
        m = re.fullmatch(r"&(?:mut )?\(\*(_\d+)\)", r)
        if m:
            v = env.get(int(m.group(1)[1:]))
            if not v or v[0] != "ref":
                self.bad("reborrow of a non-reference", line)
            return v
        m = re.fullmatch(r"(.*) as (\w+) \(IntToInt\)", r)
        if m:
            v = self.operand(m.group(1), env, line)
            t = self.ty(m.group(2))
            if v[0] != "bv" or not t or t[0] != "bv":
                self.bad("cast", line)
            _, term, w, signed = v
            tw = t[1]
            if tw == w:
                nt = term
            elif tw < w:
                nt = "((_ extract %d 0) %s)" % (tw - 1, term)
            else:
                nt = "((_ %s %d) %s)" % ("sign_extend" if signed else "zero_extend", tw - w, term)
            return ("bv", nt, tw, t[2])
        m = re.fullmatch(r"Not\((.*)\)", r)
        if m:
            v = self.operand(m.group(1), env, line)
            if v[0] == "bool":
                return ("bool", "(not %s)" % v[1])
            if v[0] == "bv":
                return ("bv", "(bvnot %s)" % v[1], v[2], v[3])
            self.bad("Not operand", line)
        m = re.fullmatch(r"(\w+)\((.*)\)", r)
        if m and m.group(1) in ("Eq", "Ne", "Lt", "Le", "Gt", "Ge", "BitAnd", "BitOr", "BitXor",
                                "Add", "Sub"):
            ops = split_top(m.group(2))
            if len(ops) != 2:
                self.bad("binop arity", line)
            a, b = self.operand(ops[0], env, line), self.operand(ops[1], env, line)
            op = m.group(1)
            if a[0] != b[0] or (a[0] == "bv" and (a[2] != b[2] or a[3] != b[3])):
                self.bad("binop operand types differ", line)
            if a[0] == "bool":
                tab = {"Eq": "(= %s %s)", "Ne": "(not (= %s %s))", "BitAnd": "(and %s %s)",
                       "BitOr": "(or %s %s)", "BitXor": "(xor %s %s)"}
                if op not in tab:
                    self.bad("binop on bool", line)
                return ("bool", tab[op] % (a[1], b[1]))
            if a[0] != "bv":
                self.bad("binop operands", line)
            self.inlined_compare = True
            s = a[3]
            cmp_ = {"Eq": "(= %s %s)", "Ne": "(not (= %s %s))",
                    "Lt": "(bvslt %s %s)" if s else "(bvult %s %s)",
                    "Le": "(bvsle %s %s)" if s else "(bvule %s %s)",
                    "Gt": "(bvsgt %s %s)" if s else "(bvugt %s %s)",
                    "Ge": "(bvsge %s %s)" if s else "(bvuge %s %s)"}
            if op in cmp_:
                return ("bool", cmp_[op] % (a[1], b[1]))
            ar = {"BitAnd": "bvand", "BitOr": "bvor", "BitXor": "bvxor", "Add": "bvadd", "Sub": "bvsub"}
            return ("bv", "(%s %s %s)" % (ar[op], a[1], b[1]), a[2], s)
        if re.fullmatch(r"(?:copy|move|const) .*", r):
            return self.operand(r, env, line)
        self.bad("rvalue", line)

    def stmt(self, s, env):
        if re.fullmatch(r"(StorageLive|StorageDead)\(_\d+\)|nop", s):
            return
        m = re.fullmatch(r"_(\d+) = (.*)", s)
        if not m:
            self.bad("statement", s)
        env[int(m.group(1))] = self.rvalue(m.group(2), env, s)

    def call(self, func, args, env, line):
        m = re.fullmatch(r"(?:core::)?char::methods::<impl char>::(\w+)", func)
        if not m or m.group(1) not in ASCII_CLASSES or len(args) != 1:
            self.bad("call outside the whitelist", line)
        v = self.operand(args[0], env, line)
        if v[0] != "ref":
            self.bad("char method receiver is not a reference", line)
        c = self.place("_%d" % v[1], env, line)
        if c[0] != "bv" or c[2] != 32:
            self.bad("char method receiver type", line)
        self.calls_modelled.append(m.group(1))
        rs = ["(and (bvule %s %s) (bvule %s %s))" % (bvlit(lo, 32), c[1], c[1], bvlit(hi, 32))
              for lo, hi in ASCII_CLASSES[m.group(1)]]
        return ("bool", rs[0] if len(rs) == 1 else "(or %s)" % " ".join(rs))

    def run_block(self, n, env, path):
        if n in path or len(path) > 200:
            raise Inconclusive("nice_char: cyclic or very deep control flow", "bb%d" % n)
        blk = self.b.blocks.get(n)
        if blk is None or blk.cleanup:
            raise Inconclusive("nice_char: jump to a missing/cleanup block", "bb%d" % n)
        env, path = dict(env), path | {n}
        for s in blk.stmts:
            self.stmt(s, env)
        t = parse_term(blk.term)
        if t[0] == "return":
            v = env.get(0)
            if not v or v[0] != "bool":
                self.bad("return value is not a bool", blk.term)
            return v[1]
        if t[0] == "goto":
            return self.run_block(t[1], env, path)
        if t[0] == "switch":
            v = self.operand(t[1], env, blk.term)
            if t[3] is None:
                self.bad("switchInt without otherwise", blk.term)
            res = self.run_block(t[3], env, path)
            for val, bb in reversed(t[2]):
                if v[0] == "bool":
                    if val not in (0, 1):
                        self.bad("switchInt value on bool", blk.term)
                    cond = v[1] if val == 1 else "(not %s)" % v[1]
                elif v[0] == "bv":
                    cond = "(= %s %s)" % (v[1], bvlit(val, v[2]))
                else:
                    self.bad("switchInt discriminant", blk.term)
                res = "(ite %s %s %s)" % (cond, self.run_block(bb, env, path), res)
            return res
        if t[0] == "call":
            env[t[1]] = self.call(t[2], t[3], env, blk.term)
            return self.run_block(t[4], env, path)
        self.bad("terminator", blk.term)

    def translate(self):
        return self.run_block(0, {self.b.params[0]: ("bv", "c", 32, False)}, frozenset())


# --------------------------------------------------------------------------
# step 2c: display_escape  ->  decision tree with string leaves
# --------------------------------------------------------------------------
def decode_fmt_template(bs):
    """core::fmt::Arguments template bytes -> list of ('lit', bytes) / ('arg',)."""
    parts, i = [], 0
    while True:
        if i >= len(bs):
            raise Inconclusive("format template is not terminated", repr(bs))
        n = bs[i]
        i += 1
        if n == 0:
            break
        if n < 0x80:
            parts.append(("lit", bs[i:i + n]))
            i += n
        elif n == 0x80:
            ln = bs[i] | (bs[i + 1] << 8)
            parts.append(("lit", bs[i + 2:i + 2 + ln]))
            i += 2 + ln
        elif n == 0xC0:
            parts.append(("arg",))
        else:
            raise Inconclusive("format placeholder with options/explicit index (unsupported)", repr(bs))
    if i != len(bs):
        raise Inconclusive("trailing bytes after the format template end marker", repr(bs))
    return parts


class EscapeRecogniser:
    def __init__(self, body, nice_name_hint):
        self.b = body
        self.consts = []  # byte strings to be matched against alloc dumps
        self.excerpt = body.text
        if len(body.params) != 1 or body.types[body.params[0]] != "&str":
            raise Inconclusive("display_escape has an unexpected signature", body.header)
        self.p = body.params[0]

    def fail(self, why, line=None):
        raise Inconclusive("display_escape: MIR shape not recognised (%s)" % why,
                           (line + "\n---\n" if line else "") + self.excerpt[:3000])

    def resolve_place(self, p, defs):
        p = p.strip()
        m = re.fullmatch(r"_(\d+)", p)
        if m:
            n = int(m.group(1))
            if n in defs:
                return defs[n]
            if n == self.p:
                return ("param",)
            self.fail("use of undefined local _%d" % n)
        m = re.fullmatch(r"\((_\d+)\.(\d+): [^()]*\)", p)
        if m:
            t = self.resolve_place(m.group(1), defs)
            if t[0] == "tuple" and int(m.group(2)) < len(t[1]):
                return t[1][int(m.group(2))]
            self.fail("field projection of a non-tuple", p)
        m = re.fullmatch(r"\(\*(_\d+)\)", p)
        if m:
            t = self.resolve_place(m.group(1), defs)
            if t[0] == "ref":
                return t[1]
        self.fail("place expression", p)

    def resolve_operand(self, o, defs):
        o = o.strip()
        m = re.fullmatch(r"(?:no_retag )?(?:copy|move) (.*)", o)
        if m:
            return self.resolve_place(m.group(1), defs)
        m = re.fullmatch(r"const (.*)", o)
        if m:
            return ("const", m.group(1).strip())
        if re.fullmatch(r"[\w:<>]+", o):
            return ("item", o)
        self.fail("operand", o)

    def resolve_rvalue(self, r, defs):
        m = re.fullmatch(r"&(?:mut )?(_\d+)", r)
        if m:
            return ("ref", self.resolve_place(m.group(1), defs))
        m = re.fullmatch(r"\((.*),\)", r)
        if m:
            return ("tuple", [self.resolve_operand(x, defs) for x in split_top(m.group(1))])
        m = re.fullmatch(r"\[(.*)\]", r)
        if m:
            return ("array", [self.resolve_operand(x, defs) for x in split_top(m.group(1))])
        m = re.fullmatch(r"Not\((.*)\)", r)
        if m:
            return ("not", self.resolve_operand(m.group(1), defs))
        m = re.fullmatch(r"Cow::<.*>::(Borrowed|Owned)\((.*)\)", r)
        if m:
            return ("variant", m.group(1), self.resolve_operand(m.group(2), defs))
        if re.fullmatch(r"(?:no_retag )?(?:copy|move|const) .*", r):
            return self.resolve_operand(r, defs)
        self.fail("rvalue", r)

    def predicate(self, t):
        if t[0] == "not":
            return ("not", self.predicate(t[1]))
        if t[0] == "call":
            f, a = t[1], t[2]
            if re.search(r"Iterator>::all::<", f) and "nice_char" in f and len(a) == 2:
                it = a[0]
                if (it[0] == "ref" and it[1][0] == "call"
                        and re.fullmatch(r"(?:core::)?str::<impl str>::chars", it[1][1])
                        and it[1][2] == [("param",)]
                        and a[1][0] == "item" and a[1][1].endswith("nice_char")):
                    return ("ALL",)
            if re.fullmatch(r"(?:core::)?str::<impl str>::is_empty", f) and a == [("param",)]:
                return ("EMPTY",)
        self.fail("branch condition is neither Chars::all(nice_char) nor str::is_empty", repr(t)[:300])

    def const_str(self, t, what):
        if t[0] != "const":
            self.fail(what + " is not a constant", repr(t)[:200])
        c = parse_const_str(t[1])
        if not c or c[0] != "str":
            self.fail(what + " is not a string literal", t[1])
        self.consts.append(list(utf8(c[1])))
        return c[1]

    def leaf(self, t):
        if t[0] != "variant":
            self.fail("return value is not a Cow variant", repr(t)[:300])
        kind, v = t[1], t[2]
        if kind == "Borrowed":
            if v == ("param",):
                return ("same",)
            return ("lit", self.const_str(v, "Cow::Borrowed operand"))
        # Owned(...)
        while v[0] == "call" and re.fullmatch(r"(?:std::|core::)?(?:hint::)?must_use::<.*String>", v[1]) \
                and len(v[2]) == 1:
            v = v[2][0]
        if v[0] == "call" and re.search(r"(to_owned|to_string|String as From<&str>>::from)$", v[1]) \
                and len(v[2]) == 1 and v[2][0][0] == "const":
            return ("lit", self.const_str(v[2][0], "owned literal"))
        if not (v[0] == "call" and re.fullmatch(r"(?:(?:std|alloc)::fmt::)?format", v[1]) and len(v[2]) == 1):
            self.fail("Cow::Owned operand is not a call of fmt::format", repr(v)[:300])
        a = v[2][0]
        if not (a[0] == "call" and re.fullmatch(r"(?:(?:core|std)::fmt::)?Arguments::<.*>::new::<\d+, 1>", a[1])
                and len(a[2]) == 2):
            self.fail("format arguments are not built by Arguments::new::<N, 1>(template, args) "
                      "(other format_args lowering)", repr(a)[:400])
        tmpl, argv = a[2]
        if tmpl[0] != "const":
            self.fail("format template is not a constant")
        tc = parse_const_str(tmpl[1])
        if not tc or tc[0] != "bytes":
            self.fail("format template is not a byte string", tmpl[1])
        self.consts.append(tc[1])
        parts = decode_fmt_template(tc[1])
        kinds = [p[0] for p in parts]
        if kinds.count("arg") != 1:
            self.fail("format template does not have exactly one placeholder", repr(parts))
        k = kinds.index("arg")
        try:
            p0 = [ord(ch) for ch in b"".join(bytes(p[1]) for p in parts[:k]).decode("utf-8")]
            p1 = [ord(ch) for ch in b"".join(bytes(p[1]) for p in parts[k + 1:]).decode("utf-8")]
        except UnicodeDecodeError:
            self.fail("format pieces are not UTF-8")
        if not (argv[0] == "ref" and argv[1][0] == "array" and len(argv[1][1]) == 1):
            self.fail("format args are not a one-element array", repr(argv)[:300])
        arg = argv[1][1][0]
        if not (arg[0] == "call" and re.search(r"Argument::<.*>::new_display::<(?:std::string::)?String>$", arg[1])
                and len(arg[2]) == 1 and arg[2][0][0] == "ref"):
            self.fail("format argument is not Argument::new_display::<String>(&_)", repr(arg)[:300])
        rep = arg[2][0][1]
        if not (rep[0] == "call" and re.fullmatch(r"(?:core::|alloc::)?str::<impl str>::replace::<&str>", rep[1])
                and len(rep[2]) == 3 and rep[2][0] == ("param",)):
            self.fail("displayed value is not s.replace::<&str>(..)", repr(rep)[:300])
        A = self.const_str(rep[2][1], "replace pattern")
        B = self.const_str(rep[2][2], "replace replacement")
        return ("quoted", p0, A, B, p1)

    def walk(self, n, defs, path):
        if n in path:
            self.fail("loop in display_escape (inlined iteration is not supported)", "bb%d" % n)
        blk = self.b.blocks.get(n)
        if blk is None or blk.cleanup:
            self.fail("jump to missing/cleanup block bb%d" % n)
        defs, path = dict(defs), path | {n}
        for s in blk.stmts:
            if re.fullmatch(r"(StorageLive|StorageDead)\(_\d+\)|nop", s):
                continue
            m = re.fullmatch(r"_(\d+) = (.*)", s)
            if not m:
                self.fail("statement", s)
            defs[int(m.group(1))] = self.resolve_rvalue(m.group(2), defs)
        t = parse_term(blk.term)
        if t[0] == "return":
            if 0 not in defs:
                self.fail("return without a value")
            return ("leaf", self.leaf(defs[0]))
        if t[0] == "goto":
            return self.walk(t[1], defs, path)
        if t[0] == "drop":
            return self.walk(t[1], defs, path)
        if t[0] == "call":
            defs[t[1]] = ("call", t[2], [self.resolve_operand(x, defs) for x in t[3]])
            return self.walk(t[4], defs, path)
        if t[0] == "switch":
            pred = self.predicate(self.resolve_operand(t[1], defs))
            if [v for v, _ in t[2]] != [0] or t[3] is None:
                self.fail("switchInt on a bool with unexpected targets", blk.term)
            return ("ite", pred, self.walk(t[3], defs, path), self.walk(t[2][0][1], defs, path))
        self.fail("terminator", blk.term)

    def recognise(self):
        return self.walk(0, {}, frozenset())


def tree_leaves(tree, cond=()):
    """-> list of (path condition as tuple of (pred, polarity), leaf)."""
    if tree[0] == "leaf":
        return [(cond, tree[1])]
    return (tree_leaves(tree[2], cond + ((tree[1], True),)) +
            tree_leaves(tree[3], cond + ((tree[1], False),)))


def describe_tree(tree):
    def pred(p):
        return {"ALL": "s.chars().all(nice_char)", "EMPTY": "s.is_empty()"}.get(p[0]) or "!" + pred(p[1])

    def lit(cps):
        return json.dumps("".join(map(chr, cps)), ensure_ascii=False)
    if tree[0] == "leaf":
        l = tree[1]
        if l[0] == "same":
            return "s"
        if l[0] == "lit":
            return lit(l[1])
        return "%s ++ replace_all(s, %s, %s) ++ %s" % (lit(l[1]), lit(l[2]), lit(l[3]), lit(l[4]))
    return "if %s then (%s) else (%s)" % (pred(tree[1]), describe_tree(tree[2]), describe_tree(tree[3]))


# --------------------------------------------------------------------------
# step 3 helpers: source extraction, native build, test strings
# --------------------------------------------------------------------------
def rust_fn_text(src, name):
    """Text of `fn name ... { ... }` by brace matching with a tiny Rust lexer."""
    m = re.search(r"\bfn " + name + r"\b", src)
    if not m:
        return None, None
    i, depth, started = m.start(), 0, False
    while i < len(src):
        if src.startswith("//", i):
            i = src.find("\n", i)
            if i < 0:
                break
            continue
        if src.startswith("/*", i):
            i = src.find("*/", i) + 2
            continue
        rm = re.compile(r'b?r(#*)"').match(src, i)
        if rm and (i == 0 or not (src[i - 1].isalnum() or src[i - 1] == "_")):
            end = src.find('"' + rm.group(1), rm.end())
            i = end + 1 + len(rm.group(1))
            continue
        j = skip_literal(src, i)
        if j is not None:
            i = j
            continue
        if src[i] == "{":
            depth += 1
            started = True
        elif src[i] == "}":
            depth -= 1
            if started and depth == 0:
                return src[m.start():i + 1], src.count("\n", 0, m.start()) + 1
        i += 1
    return None, None


NATIVE_MAIN = r'''
fn unhex(s: &str) -> Vec<u8> {
    (0..s.len() / 2).map(|i| u8::from_str_radix(&s[2 * i..2 * i + 2], 16).unwrap()).collect()
}
fn main() {
    use std::io::{BufRead, Write};
    let stdin = std::io::stdin();
    let out = std::io::stdout();
    let mut out = out.lock();
    for line in stdin.lock().lines() {
        let line = line.unwrap();
        let s = String::from_utf8(unhex(line.trim())).unwrap();
        let r = Exec::display_escape(&s);
        let hex: String = r.as_bytes().iter().map(|b| format!("{:02x}", b)).collect();
        writeln!(out, "{}", hex).unwrap();
    }
}
'''


def build_native(fn_text):
    src = ("#![allow(dead_code, unused_imports)]\nuse std::borrow::Cow;\nstruct Exec;\nimpl Exec {\n"
           + fn_text + "\n}\n" + NATIVE_MAIN)
    d = os.path.join(WORK, "native")
    os.makedirs(d, exist_ok=True)
    h = hashlib.sha256(src.encode()).hexdigest()[:16]
    exe = os.path.join(d, "de_" + h)
    if not os.path.exists(exe):
        with open(os.path.join(d, "main.rs"), "w") as f:
            f.write(src)
        r = sh_run(["rustc", "+nightly", "--edition", "2021", "-O", "-o", exe, os.path.join(d, "main.rs")])
        if r.returncode != 0:
            raise Inconclusive("native copy of display_escape does not compile", r.stderr.decode()[-800:])
    return exe


def native_render(exe, strings):
    inp = "".join(s.encode("utf-8").hex() + "\n" for s in strings)
    r = sh_run([exe], input=inp.encode())
    lines = r.stdout.decode().split("\n")
    if r.returncode != 0 or len(lines) < len(strings):
        raise Inconclusive("native display_escape run failed", r.stderr.decode()[-400:])
    return [bytes.fromhex(l.strip()).decode("utf-8") for l in lines[:len(strings)]]


def repo_test_strings(repo):
    path = os.path.join(repo, "src", "tests", "builder.rs")
    if not os.path.exists(path):
        return []
    src = open(path, encoding="utf-8").read()
    res = []
    for fn in ("exec_to_string", "pipeline_to_string"):
        text, _ = rust_fn_text(src, fn)
        if not text:
            continue
        for m in re.finditer(r"(?:Exec::cmd|Exec::shell|\.arg|\.args|\.env)\(", text):
            group = text[m.end() - 1: _close(text, m.end() - 1) + 1]
            for lm in re.finditer(r'"(?:[^"\\]|\\.)*"', group, re.S):
                s = "".join(map(chr, unescape_rust(lm.group(0)[1:-1], False)))
                if s not in res:
                    res.append(s)
    return res


def _close(s, i):
    depth = 0
    while i < len(s):
        j = skip_literal(s, i)
        if j is not None:
            i = j
            continue
        if s[i] == "(":
            depth += 1
        elif s[i] == ")":
            depth -= 1
            if depth == 0:
                return i
        i += 1
    return len(s) - 1


def random_strings(seed, n, N):
    rnd = random.Random(seed)
    meta = list("'\"\\ \t\n$`*?[]#~=%|&;<>(){}!^")
    plain = list("-_.,/") + list("abcXYZ019")
    uni = ["\u00e9", "\u20ac", "\U0001F600", "\u009c", "\u00a0", "\u2028"]
    alphabet = meta * 3 + ["'", "'", "\\", " ", "\n"] * 3 + plain * 2 + uni
    res = [""]
    while len(res) < n:
        ln = rnd.randint(0, N) if rnd.random() < 0.7 else rnd.randint(N + 1, 12)
        if rnd.random() < 0.15:  # all-nice strings exercise the bare arm
            res.append("".join(rnd.choice(plain) for _ in range(ln)))
        else:
            res.append("".join(rnd.choice(alphabet) for _ in range(ln)))
    return res


# --------------------------------------------------------------------------
# step 4: SMT encoding
# --------------------------------------------------------------------------
def b8(v):
    return "#x%02x" % v


def b32(v):
    return "#x%08x" % v


class Encoding:
    def __init__(self, nice_term, tree, N):
        self.nice_term, self.tree, self.N = nice_term, tree, N
        self.leaves = tree_leaves(tree)
        m = N
        for _, l in self.leaves:
            if l[0] == "lit":
                m = max(m, len(l[1]))
            elif l[0] == "quoted":
                _, p0, A, B, p1 = l
                if len(A) != 1:
                    raise Inconclusive("str::replace pattern is not a single character; "
                                       "the symbolic encoding only supports one-char patterns",
                                       repr("".join(map(chr, A))))
                m = max(m, len(p0) + N * max(len(B), 1) + len(p1))
        if m > 200:
            raise Inconclusive("rendered length bound too large for 8-bit offsets", str(m))
        self.M = m
        self.quoted_conds = []

    def pred_term(self, p):
        if p[0] == "ALL":
            return "allnice"
        if p[0] == "EMPTY":
            return "(= L #x00)"
        return "(not %s)" % self.pred_term(p[1])

    def cond_term(self, cond):
        ts = [self.pred_term(p) if pol else "(not %s)" % self.pred_term(p) for p, pol in cond]
        return "true" if not ts else (ts[0] if len(ts) == 1 else "(and %s)" % " ".join(ts))

    def prelude(self):
        N, M = self.N, self.M
        o = ["(set-option :produce-models true)", "(set-logic ALL)",
             "; nice(c): translated statement by statement from the MIR of display_escape::nice_char",
             "(define-fun nice ((c (_ BitVec 32))) Bool %s)" % self.nice_term,
             "(define-fun valid ((c (_ BitVec 32))) Bool (and (bvuge c #x00000001) (bvule c #x0010ffff) "
             "(not (and (bvuge c #x0000d800) (bvule c #x0000dfff)))))",
             "(define-fun inert ((c (_ BitVec 32))) Bool (or %s))" % " ".join(
                 "(= c %s)" % b32(ord(ch)) for ch in INERT),
             "(declare-const L (_ BitVec 8))"]
        for i in range(N):
            o.append("(declare-const c%d (_ BitVec 32))" % i)
        o.append("(define-fun wf () Bool (and (bvule L %s) %s))" % (b8(N), " ".join(
            "(ite (bvult %s L) (valid c%d) (= c%d #x00000000))" % (b8(i), i, i) for i in range(N)) or "true"))
        o.append("(define-fun allnice () Bool (and true %s))" % " ".join(
            "(or (bvule L %s) (nice c%d))" % (b8(i), i) for i in range(N)))
        o.append("(define-fun s_at ((k (_ BitVec 8))) (_ BitVec 32) %s)" % self._chain(
            [("(= k %s)" % b8(i), "c%d" % i) for i in range(N)], "#x00000000"))
        # leaves
        leaf_out, leaf_len = [], []
        for li, (cond, l) in enumerate(self.leaves):
            o.append("(define-fun cond%d () Bool %s)" % (li, self.cond_term(cond)))
            if l[0] == "same":
                leaf_out.append(["c%d" % j if j < N else "#x00000000" for j in range(M)])
                leaf_len.append("L")
            elif l[0] == "lit":
                leaf_out.append([b32(l[1][j]) if j < len(l[1]) else "#x00000000" for j in range(M)])
                leaf_len.append(b8(len(l[1])))
            else:
                _, p0, A, B, p1 = l
                self.quoted_conds.append(li)
                pre = "q%d_" % li
                for i in range(N):
                    o.append("(define-fun %sisA%d () Bool (and (bvult %s L) (= c%d %s)))"
                             % (pre, i, b8(i), i, b32(A[0])))
                o.append("(define-fun %soff0 () (_ BitVec 8) %s)" % (pre, b8(len(p0))))
                for i in range(N):
                    o.append("(define-fun %soff%d () (_ BitVec 8) (bvadd %soff%d (ite (bvult %s L) "
                             "(ite %sisA%d %s #x01) #x00)))" % (pre, i + 1, pre, i, b8(i), pre, i, b8(len(B))))
                outs = []
                for j in range(M):
                    if j < len(p0):
                        outs.append(b32(p0[j]))
                        continue
                    cases = []
                    for i in range(N):
                        bsel = self._chain([("(= %s (bvadd %soff%d %s))" % (b8(j), pre, i, b8(k)), b32(B[k]))
                                            for k in range(len(B))], "#x00000000")
                        cases.append(("(and (bvule %soff%d %s) (bvult %s %soff%d))" % (pre, i, b8(j), b8(j), pre, i + 1),
                                      "(ite %sisA%d %s c%d)" % (pre, i, bsel, i)))
                    for k in range(len(p1)):
                        cases.append(("(= %s (bvadd %soff%d %s))" % (b8(j), pre, N, b8(k)), b32(p1[k])))
                    o.append("(define-fun %sout%d () (_ BitVec 32) %s)" % (pre, j, self._chain(cases, "#x00000000")))
                    outs.append("%sout%d" % (pre, j))
                leaf_out.append(outs)
                leaf_len.append("(bvadd %soff%d %s)" % (pre, N, b8(len(p1))))
        nl = len(self.leaves)
        o.append("(define-fun outlen () (_ BitVec 8) %s)" % self._chain(
            [("cond%d" % li, leaf_len[li]) for li in range(nl - 1)], leaf_len[nl - 1]))
        for j in range(M):
            o.append("(define-fun out%d () (_ BitVec 32) %s)" % (j, self._chain(
                [("cond%d" % li, leaf_out[li][j]) for li in range(nl - 1)], leaf_out[nl - 1][j])))
        o.append("(define-fun outsel ((k (_ BitVec 8))) (_ BitVec 32) %s)" % self._chain(
            [("(= k %s)" % b8(j), "out%d" % j) for j in range(M)], "#x00000000"))
        # POSIX sh word automaton: q 00 unquoted, 01 single-quoted, 10 after backslash
        o += ["(define-fun q0 () (_ BitVec 2) #b00)", "(define-fun bad0 () Bool false)",
              "(define-fun st0 () Bool false)", "(define-fun fl0 () (_ BitVec 8) #x00)",
              "(define-fun mm0 () Bool false)"]
        for j in range(M):
            x, a = "out%d" % j, "act%d" % j
            U, S, E = "(= q%d #b00)" % j, "(= q%d #b01)" % j, "(= q%d #b10)" % j
            sq, bs, nlc = "(= %s #x00000027)" % x, "(= %s #x0000005c)" % x, "(= %s #x0000000a)" % x
            o.append("(define-fun %s () Bool (bvult %s outlen))" % (a, b8(j)))
            o.append("(define-fun em%d () Bool (and %s (or (and %s (inert %s)) (and %s (not %s)) (and %s (not %s)))))"
                     % (j, a, U, x, S, sq, E, nlc))
            o.append("(define-fun q%d () (_ BitVec 2) (ite (not %s) q%d (ite %s (ite %s #b10 (ite %s #b01 #b00)) "
                     "(ite %s (ite %s #b00 #b01) #b00))))" % (j + 1, a, j, U, bs, sq, S, sq))
            o.append("(define-fun bad%d () Bool (or bad%d (and %s %s (not %s) (not %s) (not (inert %s)))))"
                     % (j + 1, j, a, U, bs, sq, x))
            o.append("(define-fun st%d () Bool (or st%d (and %s (or (and %s (or %s (inert %s))) (and %s (not %s))))))"
                     % (j + 1, j, a, U, sq, x, E, nlc))
            o.append("(define-fun mm%d () Bool (or mm%d (and em%d (or (bvuge fl%d L) (not (= (s_at fl%d) %s))))))"
                     % (j + 1, j, j, j, j, x))
            o.append("(define-fun fl%d () (_ BitVec 8) (ite em%d (bvadd fl%d #x01) fl%d))" % (j + 1, j, j, j))
        o.append("; ok: the rendered word parses, in isolation, to exactly one field equal to s")
        o.append("(define-fun ok () Bool (and (= q%d #b00) (not bad%d) st%d (= fl%d L) (not mm%d)))"
                 % (M, M, M, M, M))
        return "\n".join(self._definitional(l) for l in o) + "\n"

    @staticmethod
    def _definitional(line):
        """Nullary define-funs are emitted as a constant plus a defining equation:
        z3 4.8.12 expands define-fun macros as trees, which blows up on the
        chained automaton state."""
        m = re.match(r"\(define-fun (\w+) \(\) (Bool|\(_ BitVec \d+\)) (.*)\)$", line, re.S)
        if not m:
            return line
        return "(declare-const %s %s)\n(assert (= %s %s))" % (m.group(1), m.group(2), m.group(1), m.group(3))

    @staticmethod
    def _chain(cases, default):
        t = default
        for c, v in reversed(cases):
            t = "(ite %s %s %s)" % (c, v, t)
        return t

    def getvalue(self):
        names = ["L"] + ["c%d" % i for i in range(self.N)] + ["outlen"] + ["out%d" % j for j in range(self.M)] + ["ok"]
        return "(get-value (%s))" % " ".join(names)


VAL_RE = re.compile(r"\((\w+) (#x[0-9a-fA-F]+|#b[01]+|true|false)\)")


def parse_values(text):
    d = {}
    for k, v in VAL_RE.findall(text):
        d[k] = (v == "true") if v in ("true", "false") else int(v[2:], 16 if v[1] == "x" else 2)
    return d


def model_strings(vals, enc):
    L = vals["L"]
    s = "".join(chr(vals["c%d" % i]) for i in range(L))
    out = "".join(chr(vals["out%d" % j]) for j in range(vals["outlen"]))
    return s, out


class Solvers:
    def __init__(self, timeout, qdir):
        self.timeout, self.qdir = timeout, qdir
        self.solver_s, self.calls, self.queries = 0.0, 0, 0
        os.makedirs(qdir, exist_ok=True)

    def _one(self, cmd, path):
        t0 = time.time()
        try:
            r = sh_run(cmd + [path], timeout=self.timeout + 10)
            out = r.stdout.decode() + r.stderr.decode()
        except subprocess.TimeoutExpired:
            out = "timeout"
        self.solver_s += time.time() - t0
        self.calls += 1
        first = out.strip().split("\n")[0].strip() if out.strip() else ""
        errs = [l for l in out.split("\n") if "(error" in l]
        if first == "unsat":  # the trailing get-value legitimately complains after unsat
            errs = [l for l in errs if not re.search(r"model is not available|Cannot get value", l)]
        if errs or first not in ("sat", "unsat"):
            return "unknown", out
        return first, out

    def z3_raw(self, path):
        return self._one([Z3, "-T:%d" % self.timeout], path)

    def check(self, name, text):
        """-> (verdict, z3 values, outputs); verdict in sat/unsat; raises Inconclusive."""
        path = os.path.join(self.qdir, name + ".smt2")
        with open(path, "w") as f:
            f.write(text)
        self.queries += 1
        rz, oz = self._one([Z3, "-T:%d" % self.timeout], path)
        rc, oc = self._one([CVC5, "--lang", "smt2", "--force-logic=QF_BV", "--bitblast=eager",
                            "--tlimit=%d" % (self.timeout * 1000)], path)
        if rz == "unknown" or rc == "unknown":
            raise Inconclusive("solver gave no verdict on query %s (z3: %s, cvc5: %s)"
                               % (name, rz, rc), (oz[:300] + "\n" + oc[:300]))
        if rz != rc:
            raise Inconclusive("z3 and cvc5 disagree on query %s (z3 %s, cvc5 %s)" % (name, rz, rc), path)
        return rz, (parse_values(oz) if rz == "sat" else None), (parse_values(oc) if rc == "sat" else None)


# --------------------------------------------------------------------------
# step 5: replay with the real sh
# --------------------------------------------------------------------------
def _demote():
    if os.geteuid() == 0:
        os.setgroups([])
        os.setgid(65534)
        os.setuid(65534)


def sh_eval(word, s_hint=""):
    """Evaluate `word` as the argument list of a command with /bin/sh.
    -> (fields or None on sh error, description).  Runs unprivileged in a
    scratch directory holding a few files so that globs have something to match."""
    d = tempfile.mkdtemp(prefix="c19sh.")
    try:
        os.chmod(d, 0o755)
        names = ["a", "b1", "zz"]
        g = s_hint.replace("*", "zz").replace("?", "z")
        if g and "/" not in g and "\0" not in g and g not in (".", "..") and len(g.encode()) < 200:
            names.append(g)
        for n in names:
            try:
                open(os.path.join(d, n), "w").close()
            except OSError:
                pass
        empty = os.path.join(d, ".nopath")
        os.mkdir(empty)
        env = {"W": word, "PATH": empty, "HOME": "/nonexistent-home", "LC_ALL": "C.UTF-8"}
        try:
            r = subprocess.run(["/bin/sh", "-c", 'eval "set -- $W"; printf "%s\\0" "$#" "$@"'],
                               env=env, cwd=d, stdin=subprocess.DEVNULL, stdout=subprocess.PIPE,
                               stderr=subprocess.PIPE, timeout=10, preexec_fn=_demote)
        except subprocess.TimeoutExpired:
            return None, "sh timed out"
        if r.returncode != 0:
            return None, "sh exit %d: %s" % (r.returncode, r.stderr.decode("utf-8", "replace").strip()[:200])
        parts = r.stdout.split(b"\0")
        if len(parts) < 2 or parts[-1] != b"":
            return None, "unexpected sh output %r" % r.stdout[:100]
        parts = parts[:-1]
        try:
            cnt = int(parts[0])
        except ValueError:
            return None, "unexpected sh output %r" % r.stdout[:100]
        fields = [p.decode("utf-8", "replace") for p in parts[1:]]
        if cnt != len(fields):
            return None, "sh count %d does not match %d fields" % (cnt, len(fields))
        return fields, "ok"
    finally:
        shutil.rmtree(d, ignore_errors=True)


def replay(exe, s):
    rendered = native_render(exe, [s])[0]
    fields, desc = sh_eval(rendered, s)
    return {"s": s, "rendered_native": rendered, "sh_fields": fields, "sh_note": desc,
            "expected_fields": [s], "sh_disagrees": fields != [s]}


# --------------------------------------------------------------------------
# concrete evaluation of the extracted model (python side of the validation)
# --------------------------------------------------------------------------
def py_render(tree, nice_of, s):
    def pred(p):
        if p[0] == "ALL":
            return all(nice_of[ch] for ch in s)
        if p[0] == "EMPTY":
            return s == ""
        return not pred(p[1])
    t = tree
    while t[0] == "ite":
        t = t[2] if pred(t[1]) else t[3]
    l = t[1]
    if l[0] == "same":
        return s
    if l[0] == "lit":
        return "".join(map(chr, l[1]))
    cs = lambda x: "".join(map(chr, x))
    return cs(l[1]) + s.replace(cs(l[2]), cs(l[3])) + cs(l[4])


# --------------------------------------------------------------------------
# the harness
# --------------------------------------------------------------------------
def run(tier="quick", seed=0, exclude_empty=False, repo="/repo"):
    t0 = time.time()
    thorough = (tier == "thorough")
    N = 6 if thorough else 4
    res = {"harness": "c19_smt", "kind": "proof", "status": "inconclusive", "reason": "",
           "engine": ENGINE, "queries": 0, "n_checks": 0, "stats": {"solver_s": 0.0, "sat_calls": 0},
           "wall_s": 0.0, "bounds": {"max_len": N, "alphabet": ALPHABET_DESC}, "decided_tags": [],
           "samples": {}, "functions": FUNCTIONS, "assumptions": [], "tagged_fail": [],
           "kf_empty_word": None, "tier": tier, "seed": seed, "exclude_empty": exclude_empty, "repo": repo}
    os.makedirs(WORK, exist_ok=True)
    lock = open(os.path.join(WORK, ".lock"), "w")
    fcntl.flock(lock, fcntl.LOCK_EX)
    solvers = Solvers(900 if thorough else 120, os.path.join(WORK, "queries"))
    try:
        _run(res, solvers, N, seed, exclude_empty, repo)
    except Inconclusive as e:
        res["status"] = "inconclusive"
        res["reason"] = e.reason
        if e.detail:
            res["detail"] = str(e.detail)[:3000]
    finally:
        res["queries"] = res["n_checks"] = solvers.queries
        res["stats"] = {"solver_s": round(solvers.solver_s, 3), "sat_calls": solvers.calls}
        res["wall_s"] = round(time.time() - t0, 2)
        fcntl.flock(lock, fcntl.LOCK_UN)
        lock.close()
    return res


def _run(res, solvers, N, seed, exclude_empty, repo):
    # ---- 1. MIR
    mir, copy = get_mir(repo)
    # ---- 2. translation
    nb, _ = find_fn(mir, r"\bnice_char\(_1: char\)", "display_escape::nice_char")
    db, tail = find_fn(mir, r"\bdisplay_escape\(_1: &str\)", "Exec::display_escape")
    tr = NiceTranslator(nb)
    nice_term = tr.translate()
    rec = EscapeRecogniser(db, nb.name)
    tree = rec.recognise()
    allocs = parse_allocs(tail)
    if allocs:
        pool = [list(a) for a in allocs]
        for c in rec.consts:
            if list(c) not in pool:
                raise Inconclusive("a constant read from the MIR operands has no matching alloc dump",
                                   repr(bytes(c)))
    else:
        res["assumptions"].append("no alloc dumps after display_escape in the MIR text: string constants "
                                  "taken from the `const` operands only")
    shape = describe_tree(tree)
    res["samples"]["mir_shape"] = {
        "render": shape,
        "nice_char": "calls modelled by documented ranges: %s; inline integer comparisons: %s"
                     % (sorted(set(tr.calls_modelled)) or "none", tr.inlined_compare),
        "nice_smt": nice_term}
    # ---- 3. translation validation
    src_path = os.path.join(repo, "src", "builder.rs")
    fn_text, fn_line = rust_fn_text(open(src_path, encoding="utf-8").read(), "display_escape")
    if not fn_text:
        raise Inconclusive("cannot find the source text of fn display_escape in src/builder.rs")
    loc = "src/builder.rs:%d" % fn_line
    exe = build_native(fn_text)
    tests = repo_test_strings(repo)
    rnd = random_strings(seed, 300, N)
    strings = tests + rnd
    native = native_render(exe, strings)
    enc = Encoding(nice_term, tree, N)
    prelude = enc.prelude()
    # (i) nice() on every distinct char, evaluated by z3 on the translated predicate
    chars = sorted(set("".join(strings)))
    script = prelude + "".join("(simplify (nice %s))\n" % b32(ord(ch)) for ch in chars)
    p = os.path.join(solvers.qdir, "validate_nice.smt2")
    open(p, "w").write(script)
    r = sh_run([Z3, "-T:60", p])
    lines = [l.strip() for l in r.stdout.decode().split("\n") if l.strip()]
    if "(error" in r.stdout.decode() or len(lines) != len(chars) or any(l not in ("true", "false") for l in lines):
        raise Inconclusive("z3 could not evaluate the translated nice predicate", r.stdout.decode()[:400])
    nice_of = {ch: (l == "true") for ch, l in zip(chars, lines)}
    for s, nat in zip(strings, native):
        if py_render(tree, nice_of, s) != nat:
            raise Inconclusive("translation validation failed: model and native display_escape differ",
                               json.dumps({"s": s, "native": nat, "model": py_render(tree, nice_of, s)}))
    # (ii) the full symbolic encoding with concrete s (strings within the bound)
    short = [(s, nat) for s, nat in zip(strings, native) if len(s) <= N and "\0" not in s]
    script = [prelude, "(assert wf)"]
    for k, (s, _) in enumerate(short):
        script.append("(push 1)\n(assert (= L %s))" % b8(len(s)))
        script += ["(assert (= c%d %s))" % (i, b32(ord(ch))) for i, ch in enumerate(s)]
        script.append('(echo "@@")\n(check-sat)\n%s\n(pop 1)' % enc.getvalue())
    p = os.path.join(solvers.qdir, "validate_encoding.smt2")
    open(p, "w").write("\n".join(script) + "\n")
    r = sh_run([Z3, "-T:120", p])
    chunks = r.stdout.decode().split("@@")[1:]
    if "(error" in r.stdout.decode() or len(chunks) != len(short):
        raise Inconclusive("z3 failed on the concrete evaluation of the encoding", r.stdout.decode()[:400])
    n_sh = 0
    for (s, nat), ch in zip(short, chunks):
        if ch.strip().split("\n")[0].strip() != "sat":
            raise Inconclusive("encoding unsatisfiable for a concrete string (encoding wrong)", json.dumps(s))
        vals = parse_values(ch)
        ms, mout = model_strings(vals, enc)
        if ms != s or mout != nat:
            raise Inconclusive("translation validation failed: symbolic encoding and native differ",
                               json.dumps({"s": s, "native": nat, "encoding": mout}))
        if vals["ok"]:  # automaton soundness sample: what it accepts, sh must parse to [s]
            fields, note = sh_eval(nat, s)
            n_sh += 1
            if fields != [s]:
                raise Inconclusive("sh automaton accepted a word that the real sh parses differently "
                                   "(automaton unsound)", json.dumps({"s": s, "word": nat, "sh": fields, "note": note}))
    res["decided_tags"].append("C19/translation-validated")
    res["samples"]["validation"] = {"repo_test_strings": tests, "random_strings": len(rnd),
                                    "through_symbolic_encoding": len(short), "automaton_accepts_checked_with_sh": n_sh}
    res["samples"]["examples"] = [{"s": s, "rendered": n} for s, n in list(zip(strings, native))[:8]]
    res["assumptions"] += [
        "Iterator::all, str::chars, str::replace (non-overlapping, left to right), fmt::format with a "
        "Display placeholder and Cow::{Borrowed,Owned} behave as documented (std is not translated); "
        "the composed model is validated against the compiled source on %d strings per run" % len(strings),
        "char::is_ascii_alphanumeric modelled by its documented ranges 0-9, A-Z, a-z when it appears as a call",
        "strings are sequences of at most %d code points without NUL; longer strings are not covered" % N,
        "sh word automaton is conservative: only [A-Za-z0-9_-.,/+:@] are accepted outside quotes; it models one "
        "word in argument position of a simple command (reserved words/aliases in command position, and the "
        "joining of words, are outside this component)",
        "the shell reads UTF-8 transparently (all special characters are ASCII)",
        "unwind edges (allocation failure panics) are ignored",
    ]
    # ---- 6a. SAT twins (vacuity)
    twins = {}
    q = enc.quoted_conds
    if q:
        kk = min(N, 3)
        alts = []
        for li in q:
            B = enc.leaves[li][1][3]
            alts += ["(and cond%d q%d_isA%d %s)" % (li, li, i, " ".join(
                "(= (outsel (bvadd q%d_off%d %s)) %s)" % (li, i, b8(k), b32(B[k])) for k in range(len(B))) or "true")
                for i in range(N)]
        text = prelude + "(assert wf)\n(assert (= L %s))\n(assert (or %s))\n(check-sat)\n%s\n" % (
            b8(kk), " ".join(alts), enc.getvalue())
        v, vz, _ = solvers.check("twin_quoted_splice", text)
        if v != "sat":
            raise Inconclusive("SAT twin (a string whose quote is rendered in the spliced form) is unsat: "
                               "encoding is vacuous")
        ms, mout = model_strings(vz, enc)
        if native_render(exe, [ms])[0] != mout:
            raise Inconclusive("SAT twin model disagrees with native display_escape", json.dumps([ms, mout]))
        twins["quoted_splice"] = {"s": ms, "rendered": mout, "roundtrip_ok": vz["ok"]}
    text = prelude + "(assert wf)\n(assert (= L %s))\n(assert ok)\n(check-sat)\n%s\n" % (b8(N), enc.getvalue())
    v, vz, _ = solvers.check("twin_roundtrip_ok", text)
    if v != "sat":
        raise Inconclusive("SAT twin (some string of maximal length round-trips) is unsat: automaton is vacuous")
    ms, mout = model_strings(vz, enc)
    if native_render(exe, [ms])[0] != mout:
        raise Inconclusive("SAT twin model disagrees with native display_escape", json.dumps([ms, mout]))
    twins["roundtrip_ok"] = {"s": ms, "rendered": mout}
    res["samples"]["sat_twins"] = twins
    # ---- 4. property queries, one per length, ascending
    per_len = {}
    cex = {}  # length -> confirmed replay
    stop = False
    for k in range(N + 1):
        if stop:
            per_len[k] = "not run (a shorter non-empty counterexample was confirmed)"
            continue
        blocked = []
        while True:
            text = (prelude + "(assert wf)\n(assert (= L %s))\n" % b8(k) + "".join(blocked)
                    + "(assert (not ok))\n(check-sat)\n%s\n" % enc.getvalue())
            v, vz, vc = solvers.check("roundtrip_len%d%s" % (k, "_alt%d" % len(blocked) if blocked else ""), text)
            if v == "unsat":
                per_len[k] = "unsat" if not blocked else "unsat after excluding %d unconfirmed models" % len(blocked)
                if blocked:
                    raise Inconclusive(
                        "solver counterexamples of length %d are not confirmed by the real sh: the sh automaton "
                        "is too strict (or wrong) for this code" % k, json.dumps(res["samples"].get("unconfirmed")))
                break
            s, mout = model_strings(vz, enc)
            rp = replay(exe, s)
            if rp["rendered_native"] != mout:
                raise Inconclusive("counterexample model disagrees with native display_escape (translator wrong)",
                                   json.dumps({"s": s, "model": mout, "native": rp["rendered_native"]}))
            if rp["sh_disagrees"]:
                per_len[k] = "sat"
                cex[k] = rp
                if k > 0:
                    stop = True
                break
            res["samples"].setdefault("unconfirmed", []).append(rp)
            if len(blocked) >= 4 or k == 0:
                raise Inconclusive("solver counterexample is not confirmed by the real sh: the sh automaton is "
                                   "too strict (or wrong)", json.dumps(rp))
            blocked.append("(assert (not (and %s)))\n" % " ".join(
                "(= c%d %s)" % (i, b32(ord(ch))) for i, ch in enumerate(s)))
    res["samples"]["per_length"] = {str(k): v for k, v in per_len.items()}
    # ---- verdict
    empty_cex = cex.get(0)
    other = [cex[k] for k in sorted(cex) if k > 0]
    res["kf_empty_word"] = bool(empty_cex)
    res["nonempty_result"] = ("counterexample" if other else "unsat for all lengths 1..%d" % N)
    res["empty_result"] = ("counterexample confirmed by sh" if empty_cex else "unsat")
    if empty_cex:
        res["tagged_fail"].append({"desc": "display_escape(\"\") renders the empty argument as an empty word "
                                           "(no quotes); sh drops it: fields %s instead of [\"\"]"
                                           % json.dumps(empty_cex["sh_fields"]), "loc": loc})
        res["samples"]["empty_word_replay"] = empty_cex
    if other:
        o = other[0]
        res["tagged_fail"].append({"desc": "display_escape(%s) = %s is parsed by sh as %s (%s)" % (
            json.dumps(o["s"], ensure_ascii=False), json.dumps(o["rendered_native"], ensure_ascii=False),
            json.dumps(o["sh_fields"], ensure_ascii=False), o["sh_note"]), "loc": loc})
    res["decided_tags"].append("C19/word-roundtrip nonempty len<=%d" % N)
    if other:
        res["status"] = "fail"
        res["counterexample"] = other[0]["s"]
        res["replay"] = other[0]
        res["reason"] = ("sat: non-empty counterexample of length %d, confirmed by native display_escape + /bin/sh"
                         % len(other[0]["s"]))
    elif empty_cex and not exclude_empty:
        res["status"] = "fail"
        res["counterexample"] = ""
        res["replay"] = empty_cex
        res["decided_tags"].append("C19/word-roundtrip len<=%d" % N)
        res["reason"] = ("sat only for s = \"\" (empty argument rendered as an empty word, dropped by sh; confirmed "
                         "by /bin/sh); unsat for every non-empty s with at most %d code points (z3 and cvc5 agree)" % N)
    else:
        res["status"] = "pass"
        if not empty_cex:
            res["decided_tags"].append("C19/word-roundtrip len<=%d" % N)
        res["reason"] = ("unsat for every length 0..%d (z3 and cvc5 agree)" % N if not empty_cex else
                         "empty string excluded on request (known finding, still present); unsat for every "
                         "non-empty s with at most %d code points (z3 and cvc5 agree)" % N)


# --------------------------------------------------------------------------
# mutation self-test (not run by default)
# --------------------------------------------------------------------------
MUTATIONS = [
    # name, old, new, expected status with exclude_empty=True
    ("a_drop_comma", "'-' | '_' | '.' | ',' | '/'", "'-' | '_' | '.' | '/'", "pass"),
    ("b_add_star", "'-' | '_' | '.' | ',' | '/'", "'-' | '_' | '.' | ',' | '/' | '*'", "fail"),
    ("b_add_space", "'-' | '_' | '.' | ',' | '/'", "'-' | '_' | '.' | ',' | '/' | ' '", "fail"),
    ("c_bad_replacement", "r#\"'\\''\"#", "r#\"\\'\"#", "fail"),
    ("d_fix_empty", "if !s.chars().all(nice_char)", "if s.is_empty() || !s.chars().all(nice_char)", "pass*"),
]


def selftest(tier="quick", seed=0, repo="/repo"):
    out = []
    base = run(tier, seed, exclude_empty=False, repo=repo)
    out.append({"mutation": "none (exclude_empty=False)", "status": base["status"], "reason": base["reason"],
                "counterexample": base.get("counterexample"), "kf_empty_word": base["kf_empty_word"],
                "expected": "fail with counterexample \"\"",
                "as_expected": base["status"] == "fail" and base.get("counterexample") == ""})
    for name, old, new, exp in MUTATIONS:
        d = os.path.join(WORK, "mut", name)
        os.makedirs(d, exist_ok=True)
        sh_run(["rsync", "-a", "--delete", "--exclude", "target", "--exclude", ".git", repo.rstrip("/") + "/", d + "/"])
        p = os.path.join(d, "src", "builder.rs")
        src = open(p, encoding="utf-8").read()
        text, _ = rust_fn_text(src, "display_escape")
        if not text or text.count(old) != 1:
            out.append({"mutation": name, "status": "not applicable", "as_expected": False})
            continue
        open(p, "w", encoding="utf-8").write(src.replace(text, text.replace(old, new)))
        excl = not exp.endswith("*")
        r = run(tier, seed, exclude_empty=excl, repo=d)
        out.append({"mutation": name, "exclude_empty": excl, "status": r["status"], "reason": r["reason"],
                    "counterexample": r.get("counterexample"), "kf_empty_word": r["kf_empty_word"],
                    "replay": r.get("replay"), "expected": exp.rstrip("*"),
                    "as_expected": r["status"] == exp.rstrip("*") and (r["status"] != "fail" or bool(r.get("replay")))})
    return {"all_as_expected": all(x["as_expected"] for x in out), "results": out}


if __name__ == "__main__":
    args = sys.argv[1:]
    if args and args[0] == "selftest":
        print(json.dumps(selftest(*(args[1:2] or ["quick"])), indent=1, ensure_ascii=False))
    else:
        excl = "--exclude-empty" in args
        args = [a for a in args if not a.startswith("--")]
        tier = args[0] if args else "quick"
        seed = int(args[1]) if len(args) > 1 else 0
        print(json.dumps(run(tier, seed, exclude_empty=excl), indent=1, ensure_ascii=False))
