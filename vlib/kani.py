"""Compile harnesses of the vk crate with Kani and decide them with CBMC.

  1. cargo kani --only-codegen --harness H1 --harness H2 ...   real code -> GOTO binaries
  2. goto-instrument --show-loops / --show-symbol-table         loop + recursion ids -> --unwindset
  3. cbmc --show-properties                                     select the properties to decide
  4. cbmc <Kani's flags> --unwind N --unwindset ... --property ...   (unwinding assertions on)
  5. parse per-property results

CBMC is called directly on the GOTO binary Kani produced (same flags Kani's driver
passes, captured from a running instance) because the driver's --json-ui/--verbosity 9
post-processing costs 4x the solving time on harnesses of this size, and because
selecting properties lets --slice-formula drop the thousands of std-internal checks.
Selected: every assertion tagged with the property in focus, every model
self-check, every unwinding/recursion assertion, every unsupported-construct
marker, every assertion/unreachable/overflow check located in /repo code, every
std assertion (panics reached through misuse), the COVER witnesses, and Kani's
reachability marker of each tagged assertion (vacuity guard: a tagged assertion
counts only if its marker is reachable).
"""
import os, re, subprocess, glob, time, json, queue, fcntl

VERIF = "/verif"
KANI_DIR = VERIF + "/kani"
WORK = VERIF + "/.work"
NPAR = int(os.environ.get("VERIF_JOBS", "8"))

ENV = dict(os.environ)
ENV["CARGO_NET_OFFLINE"] = "true"
ENV.pop("RUSTFLAGS", None)

KANI_FLAGS = ["-Z", "c-ffi", "-Z", "stubbing", "-Z", "unstable-options", "-Z", "restrict-vtable"]
# flags of Kani 0.68's own cbmc invocation (--no-memory-safety-checks --no-overflow-checks)
CBMC_FLAGS = ["--no-malloc-may-fail", "--no-undefined-shift-check", "--no-signed-overflow-check", "--no-bounds-check",
              "--no-pointer-check", "--no-div-by-zero-check", "--no-self-loops-to-assumptions",
              "--no-pointer-primitive-check", "--object-bits", "16", "--sat-solver", "cadical", "--slice-formula"]


class Harness:
    def __init__(self, name, unwind=3, unwindset=None, timeout=900, mem_gb=14, kind="proof",
                 note="", bounds=None, cbmc_args=None, focus=None, covers=None, expect_panic=None, spin_loops=None):
        self.name = name
        self.unwind = unwind
        self.unwindset = list(unwindset or [])   # (regex over "<file> :: <function>", bound)
        self.timeout = timeout
        self.mem_gb = mem_gb
        self.kind = kind        # proof | twin (must fail) | kf (known-finding region, expected to fail)
        self.note = note
        self.bounds = bounds or {}
        self.cbmc_args = cbmc_args or []
        self.focus = focus      # property id whose tags are decided (set by the driver)
        self.covers = covers or []   # COVER/ witnesses that must be satisfied in this harness
        # regex: the harness MUST end in a panic of the real code matching it ("refused loudly");
        # its tagged assert!(false) after the call must then be unreachable
        self.expect_panic = expect_panic
        # (regex, tag): in this harness every iteration of the matching loop makes at least one
        # counted model call and the trace is cut after a call budget, so running out of the
        # (budget-derived) unwinding bound there means iterations without any system call: spinning
        self.spin_loops = spin_loops or []

    @property
    def short(self):
        return self.name.split("::")[-1]


DEFAULT_UNWINDSET = [
    (r"src/mk/", 17),                   # model-kernel table scans (NFD = 16)
]
DEFAULT_RECURSION = [
    (r"drop_glue::<std::io::Error>$", 1),
]


def _run(cmd, timeout, mem_gb=None, cwd=None):
    pre = ""
    if mem_gb:
        pre = "ulimit -v %d; " % (mem_gb * 1024 * 1024)
    t0 = time.time()
    try:
        p = subprocess.run(["bash", "-c", pre + 'exec "$@"', "sh"] + cmd, cwd=cwd or KANI_DIR, env=ENV,
                           stdout=subprocess.PIPE, stderr=subprocess.STDOUT, timeout=timeout)
        out = p.stdout.decode("utf-8", "replace")
        rc = p.returncode
    except subprocess.TimeoutExpired as e:
        out = (e.stdout or b"").decode("utf-8", "replace") + "\n[vcheck] TIMEOUT after %ds\n" % timeout
        rc = -9
    return rc, out, time.time() - t0


def codegen(target, harnesses):
    """one cargo-kani compile producing a GOTO binary per harness"""
    os.makedirs(target, exist_ok=True)
    cmd = ["cargo", "kani"] + KANI_FLAGS + ["--only-codegen", "--exact", "--target-dir", target]
    for h in harnesses:
        cmd += ["--harness", h.name]
    lock = open(target + "/.vcheck.lock", "w")
    fcntl.flock(lock, fcntl.LOCK_EX)
    try:
        rc, out, dt = _run(cmd, 1800)
    finally:
        fcntl.flock(lock, fcntl.LOCK_UN)
    os.makedirs(WORK + "/logs", exist_ok=True)
    open(WORK + "/logs/codegen.%s.log" % os.path.basename(target), "w").write(out)
    return rc, out, dt


def find_symtab(target, short):
    pats = glob.glob(target + "/kani/*/debug/build/vk/*/out/*%s.symtab.out" % short)
    pats = [p for p in pats if re.search(r"\d+%s\.symtab\.out$" % re.escape(short), p)]
    if not pats:
        return None
    return max(pats, key=os.path.getmtime)


def instrumented_kani_lib():
    """Kani's C model of the Rust allocator entry points (__rust_alloc, __rust_alloc_zeroed,
    __rust_realloc) with one line added to each: it bumps the counter VK_ALLOCS, a
    #[no_mangle] static of the harness crate (mk::proc_).  This is the C17 allocation
    observer: it sits below every std container, including Vec growth through
    Global::grow, which stubbing std::alloc::realloc does not see (measured)."""
    src = os.path.expanduser("~/.kani/kani-0.68.0/library/kani/kani_lib.c")
    out = WORK + "/kani_lib_vk.c"
    text = open(src).read()
    text = "extern unsigned int VK_ALLOCS;\n" + text
    n = 0
    for fn in ("__rust_alloc", "__rust_alloc_zeroed", "__rust_realloc"):
        m = re.search(r"uint8_t \*%s\([^)]*\)\s*\{" % fn, text)
        if m:
            text = text[:m.end()] + "\n    VK_ALLOCS++;" + text[m.end():]
            n += 1
    if n != 3:
        return src
    try:
        if open(out).read() == text:
            return out
    except FileNotFoundError:
        pass
    os.makedirs(WORK, exist_ok=True)
    with open(out, "w") as f:
        f.write(text)
    return out


def link_goto(symtab):
    """The post-codegen steps of Kani 0.68's driver (captured from a running
    instance): link with Kani's C library, set the entry point, add the CPROVER
    library, give undefined functions an assert-false body, normalise back edges."""
    out = symtab[:-len(".symtab.out")] + ".vk.out"
    mangled = "_" + os.path.basename(symtab)[:-len(".symtab.out")].split("__", 1)[1]
    kani_lib = instrumented_kani_lib()
    # vtable restrictions (-Z restrict-vtable): a virtual call may only reach the
    # methods of types actually coerced to that trait object in the program.
    # Without it CBMC's function-pointer removal lets `drop(Box<dyn Error>)` inside
    # io::Error's drop glue reach every drop glue in the binary.
    rfile = symtab[:-len(".symtab.out")] + ".restrictions.json"
    linked = symtab[:-len(".symtab.out")] + ".vk.linked-restrictions.json"
    restrict_step = []
    if os.path.exists(rfile):
        r = json.load(open(rfile))
        poss = {}
        for pm in r.get("possible_methods", []):
            tm = pm["trait_method"]
            poss.setdefault((tm["trait_name"], tm["vtable_idx"]), []).extend(pm.get("possibilities", []))
        m = {}
        for cs in r.get("call_sites", []):
            tm = cs["trait_method"]
            m["%s.%s" % (cs["function_name"], cs["label"])] = sorted(set(poss.get((tm["trait_name"], tm["vtable_idx"]), [])))
        # io::Error lives in core since 2026 and drops its boxed payload through a
        # plain function pointer (CustomOwner::outer_drop), which -Z restrict-vtable
        # does not cover: pin it to the only function ever stored there.
        st = subprocess.run(["goto-instrument", "--show-symbol-table", symtab], stdout=subprocess.PIPE,
                            stderr=subprocess.DEVNULL).stdout.decode("utf-8", "replace")
        owner_drop, targets = None, []
        cur = None
        for ln in st.split("\n"):
            if ln.startswith("Symbol......:"):
                cur = ln.split(":", 1)[1].strip()
            elif ln.startswith("Pretty name.:") and cur and "::" not in cur.replace("::", "", 0)[0:0]:
                pn = ln.split(":", 1)[1].strip()
                if pn == "<core::io::CustomOwner as std::ops::Drop>::drop":
                    owner_drop = cur
                elif "custom_owner_from_box::drop_box_raw::<core::io::Custom>" in pn and "::1::" not in cur and "$" not in cur:
                    targets.append(cur)
        if owner_drop and targets:
            m[owner_drop + ".function_pointer_call.1"] = sorted(set(targets))
        json.dump(m, open(linked, "w"))
        restrict_step = [["goto-instrument", "--function-pointer-restrictions-file", linked, out, out]]
    steps = [
        ["goto-cc", symtab, kani_lib, "-o", out],
        ["goto-cc", out, "--function", mangled, "-o", out],
        ["goto-instrument", "--add-library", "--no-malloc-may-fail", out, out],
    ] + restrict_step + [
        ["goto-instrument", "--generate-function-body-options", "assert-false-assume-false",
         "--generate-function-body", ".*", "--drop-unused-functions", out, out],
        ["goto-instrument", "--ensure-one-backedge-per-target", out, out],
    ]
    steps = [st for st in steps if st]
    for st in steps:
        p = subprocess.run(st, stdout=subprocess.PIPE, stderr=subprocess.STDOUT)
        if p.returncode != 0:
            return None, "%s failed: %s" % (st[0] + " " + st[1], p.stdout.decode("utf-8", "replace")[-300:])
    return out, None


def show_loops(goto):
    p = subprocess.run(["goto-instrument", "--show-loops", goto], stdout=subprocess.PIPE, stderr=subprocess.DEVNULL)
    txt = p.stdout.decode("utf-8", "replace")
    loops = []
    for m in re.finditer(r"^Loop (\S+):\n\s+file (.*?) line (\d+)(?: column \d+)? function (.*)$", txt, re.M):
        loops.append({"id": m.group(1), "file": m.group(2), "line": int(m.group(3)), "function": m.group(4)})
    return loops


def symbol_table(goto):
    p = subprocess.run(["goto-instrument", "--show-symbol-table", goto], stdout=subprocess.PIPE, stderr=subprocess.DEVNULL)
    return p.stdout.decode("utf-8", "replace")


def recursion_ids(symtab_txt, patterns):
    res = []
    cur = None
    for ln in symtab_txt.split("\n"):
        if ln.startswith("Symbol......:"):
            cur = ln.split(":", 1)[1].strip()
        elif ln.startswith("Pretty name.:") and cur:
            pn = ln.split(":", 1)[1].strip()
            for rx, b in patterns:
                if re.search(rx, pn):
                    res.append((cur, pn, b))
    return res


def repo_functions(symtab_txt):
    """pretty names of the compiled functions whose body comes from the mounted /repo sources"""
    out = set()
    for b in symtab_txt.split("\n\n"):
        if "/.work/gen/" not in b or 'irep("(\\"compiled\\")")' not in b:
            continue
        m = re.search(r"Pretty name.: (.+)", b)
        if not m:
            continue
        nm = m.group(1).strip()
        if "vh_" in nm:
            continue
        nm = re.sub(r"/verif/\.work/gen/", "src/", nm)
        if not re.match(r"^<?(popen|posix|communicate|builder|os_common)::", nm) or "std::iter::" in nm:
            continue
        out.add(nm[:160])
    return sorted(out)


def list_properties(goto):
    p = subprocess.run(["cbmc"] + CBMC_FLAGS + ["--show-properties", goto], stdout=subprocess.PIPE, stderr=subprocess.DEVNULL)
    txt = p.stdout.decode("utf-8", "replace")
    props = []
    for m in re.finditer(r"^Property (\S.*?):\n\s+file (.*?) line (\d+).*?function (.*)\n\s+(.*)\n", txt, re.M):
        name, file, line, func, desc = m.groups()
        mid = re.match(r"\[?(KANI_CHECK_ID_[^\]\s]+)\]?\s*(.*)$", desc)
        cid = mid.group(1) if mid else None
        d = mid.group(2) if mid else desc
        d = d.strip().strip('"')
        parts = name.rsplit(".", 2)
        cls = parts[-2] if len(parts) == 3 and parts[-1].isdigit() else ""
        props.append({"name": name, "file": file, "line": int(line), "func": func, "desc": d, "id": cid, "cls": cls})
    return props


def select_properties(props, focus):
    sel = []
    tag_ids = set()
    ftag = re.compile(r"^%s/" % focus) if focus else None
    for p in props:
        d = p["desc"]
        if p["cls"] == "reachability_check":
            continue
        take = False
        if ftag and ftag.match(d):
            take = True
            if p["id"]:
                tag_ids.add(p["id"])
        elif d.startswith("MODEL/") or d.startswith("COVER/"):
            take = True
        elif re.match(r"^C\d\d/", d):
            take = False          # other properties' tags: inactive anyway (FOCUS)
        elif p["cls"] in ("unwind", "recursion", "unsupported_construct", "assertion", "unreachable"):
            take = True
        elif ".unwind." in p["name"] or p["name"].endswith(".recursion"):
            take = True
        elif "/.work/gen/" in p["file"] and p["cls"] in ("arithmetic_overflow", "exact_div", "precondition"):
            take = True
        if take:
            sel.append(p)
    # reachability markers of the tagged assertions
    for p in props:
        if p["cls"] == "reachability_check" and p["id"] in tag_ids:
            sel.append(p)
    return sel


def parse_results(out):
    res = {}
    descs = {}
    for m in re.finditer(r"^\[(.*?)\] line (\d+) (.*): (SUCCESS|FAILURE|UNKNOWN)$", out, re.M):
        res[m.group(1)] = m.group(4)
        descs[m.group(1)] = (m.group(3), int(m.group(2)))
    # properties without line info
    for m in re.finditer(r"^\[(.*?)\] (?!line )(.*): (SUCCESS|FAILURE|UNKNOWN)$", out, re.M):
        res.setdefault(m.group(1), m.group(3))
    st = {}
    m = re.search(r"Runtime Symex: ([\d.e+-]+)s", out)
    if m:
        st["symex_s"] = round(float(m.group(1)), 2)
    st["solver_s"] = round(sum(float(x) for x in re.findall(r"Runtime decision procedure: ([\d.e+-]+)s", out)), 2)
    st["sat_calls"] = len(re.findall(r"Runtime decision procedure:", out))
    m = re.findall(r"(\d+) variables, (\d+) clauses", out)
    if m:
        st["variables"] = int(m[-1][0])
        st["clauses"] = int(m[-1][1])
    m = re.search(r"size of program expression: (\d+) steps", out)
    if m:
        st["program_steps"] = int(m.group(1))
    m = re.search(r"Generated (\d+) VCC\(s\), (\d+) remaining after simplification", out)
    if m:
        st["vccs"] = int(m.group(1))
        st["vccs_remaining"] = int(m.group(2))
    verdict = "NONE"
    if "VERIFICATION SUCCESSFUL" in out:
        verdict = "SUCCESSFUL"
    elif "VERIFICATION FAILED" in out:
        verdict = "FAILED"
    return res, st, verdict, descs


def run_cbmc(h, goto, focus, want_trace=False, only_props=None):
    t0 = time.time()
    res = {"harness": h.name, "kind": h.kind, "unwind": h.unwind, "bounds": h.bounds, "note": h.note, "engine": "kani 0.68 -> cbmc 6.11 (cadical)"}
    loops = show_loops(goto)
    symtab = symbol_table(goto)
    uw = []
    used = []
    pats = h.unwindset + DEFAULT_UNWINDSET
    for lp in loops:
        key = "%s :: %s" % (lp["file"], lp["function"])
        for rx, b in pats:
            if rx.startswith("REC:"):
                continue
            if re.search(rx, key):
                uw.append("%s:%d" % (lp["id"], b))
                used.append([lp["function"][:90], lp["line"], b])
                break
    rec = [(rx[4:], b) for rx, b in h.unwindset if rx.startswith("REC:")] + DEFAULT_RECURSION
    for sym, pn, b in recursion_ids(symtab, rec):
        uw.append("%s:%d" % (sym, b))
        used.append(["recursion " + pn[:80], 0, b])
    props = list_properties(goto)
    sel = select_properties(props, focus)
    if only_props is not None:
        sel = [p for p in sel if p["name"] in only_props]
    byname = {p["name"]: p for p in sel}
    cmd = ["cbmc"] + CBMC_FLAGS + ["--verbosity", "8", "--unwind", str(h.unwind)]
    if uw:
        cmd += ["--unwindset", ",".join(uw)]
    for p in sel:
        cmd += ["--property", p["name"]]
    if want_trace:
        cmd += ["--trace"]
    cmd += h.cbmc_args + [goto]
    rc, out, dt = _run(cmd, h.timeout, h.mem_gb, cwd="/")
    log = "%s/logs/%s.%s.log" % (WORK, focus or "x", h.short)
    os.makedirs(WORK + "/logs", exist_ok=True)
    with open(log, "w") as f:
        f.write(" ".join(cmd[:40]) + " ...\n" + out)
    results, stats, verdict, descs = parse_results(out)
    res["stats"] = stats
    res["cbmc_s"] = round(dt, 1)
    res["log"] = log
    res["loops_bounded"] = used[:30]
    res["functions"] = repo_functions(symtab)
    res["n_properties_in_binary"] = len(props)
    res["n_checks"] = len(sel)
    res["goto"] = goto

    tagged_fail, other_fail, covers_sat, covers_unsat = [], [], [], []
    decided_tags, unreachable_tags = set(), set()
    reach = {}
    unknown = 0
    for name, status in results.items():
        p = byname.get(name)
        if not p:
            continue
        if p["cls"] == "reachability_check":
            reach[p["id"]] = (status == "FAILURE")
    for name, status in results.items():
        p = byname.get(name)
        if not p and (".unwind." in name or name.endswith(".recursion")):
            # unwinding / recursion assertions are generated during symex: not listed up front
            d0, ln = descs.get(name, ("unwinding assertion", 0))
            p = {"name": name, "file": name.rsplit(".unwind.", 1)[0], "line": ln, "func": name, "desc": d0, "id": None, "cls": "unwind"}
        if not p or p["cls"] == "reachability_check":
            continue
        d = p["desc"]
        if d.startswith("COVER/"):
            (covers_sat if status == "FAILURE" else covers_unsat).append(d)
            continue
        if status == "UNKNOWN":
            unknown += 1
        if re.match(r"^C\d\d/", d):
            if status == "FAILURE":
                tagged_fail.append({"desc": d, "loc": "%s:%d" % (p["file"], p["line"]), "name": name})
            elif status == "SUCCESS":
                if reach.get(p["id"], True):
                    decided_tags.add(d)
                else:
                    unreachable_tags.add(d)
        elif status == "FAILURE":
            other_fail.append({"desc": d, "loc": "%s:%d in %s" % (p["file"], p["line"], p["func"][:80]), "name": name, "cls": p["cls"]})
    res.update(tagged_fail=tagged_fail, other_fail=other_fail[:12], covers_sat=sorted(set(covers_sat)),
               covers_unsat=sorted(c for c in (set(covers_unsat) - set(covers_sat)) if c in h.covers) + sorted(c for c in h.covers if c not in covers_sat and c not in covers_unsat), decided_tags=sorted(decided_tags),
               unreachable_tags=sorted(unreachable_tags - decided_tags))
    for rx, tag in h.spin_loops:
        spin = [c for c in other_fail if ("unwinding assertion" in c["desc"]) and re.search(rx, c["loc"] + " " + c["name"])]
        if spin:
            other_fail = [c for c in other_fail if c not in spin]
            res["other_fail"] = other_fail[:12]
            tagged_fail.append({"desc": tag, "loc": spin[0]["loc"], "name": spin[0]["name"]})
            res["tagged_fail"] = tagged_fail
    if h.expect_panic:
        expected = [c for c in other_fail if re.search(h.expect_panic, c["desc"])]
        other_fail = [c for c in other_fail if not re.search(h.expect_panic, c["desc"])]
        res["other_fail"] = other_fail[:12]
        res["expected_panics"] = sorted(set(c["desc"] for c in expected))
        if expected and not tagged_fail:
            # the refusal happened: the tagged assertion behind it is unreachable, as it must be
            decided_tags |= set(unreachable_tags)
            res["decided_tags"] = sorted(decided_tags)
            res["unreachable_tags"] = []
    missing = [p["name"] for p in sel if p["name"] not in results]
    res["wall_s"] = round(time.time() - t0, 1)
    if want_trace:
        res["trace"] = out
    # ---- classification
    if rc == -9:
        res.update(status="inconclusive", reason="timeout after %ds" % h.timeout)
    elif verdict == "NONE" or not results:
        tail = out.strip().split("\n")[-3:]
        res.update(status="inconclusive", reason="no verdict (tool failure / out of memory): " + " | ".join(tail)[:300])
    elif other_fail:
        unw = [c for c in other_fail if "unwinding assertion" in c["desc"] or "recursion" in c["desc"]]
        model = [c for c in other_fail if c["desc"].startswith("MODEL/")]
        unsup = [c for c in other_fail if c["cls"] == "unsupported_construct"]
        if unw:
            res.update(status="inconclusive", reason="unwinding bound too small: " + "; ".join(sorted(set(c["loc"] for c in unw)))[:500])
        elif model:
            res.update(status="inconclusive", reason="model self-check failed: " + model[0]["desc"])
        elif unsup:
            res.update(status="inconclusive", reason="unsupported construct reachable: " + unsup[0]["desc"][:200])
        elif tagged_fail:
            res.update(status="fail", reason="; ".join(sorted(set(c["desc"] for c in tagged_fail)))[:700])
        else:
            # a panic / failed assertion in the real code or in std reached from it
            res.update(status="fail", reason="untagged failure: %s @ %s" % (other_fail[0]["desc"][:200], other_fail[0]["loc"]))
            res["untagged"] = True
    elif tagged_fail:
        res.update(status="fail", reason="; ".join(sorted(set(c["desc"] for c in tagged_fail)))[:700])
    elif unknown or missing:
        res.update(status="inconclusive", reason="%d properties undecided, %d missing from output" % (unknown, len(missing)))
    else:
        res.update(status="pass", reason="")
    return res
