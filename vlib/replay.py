"""Native replay of solver counterexamples against the real crate and kernel."""
import json, os, subprocess


def replay_counterexample(pid, item, result, seed):
    return None, {"note": "no native replayer for this property yet"}


def replay_file(pid, path):
    return False, {"note": "no native replayer for this property yet"}
