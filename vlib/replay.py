"""Native replay of solver counterexamples against the real crate and the real kernel.

A counterexample found by CBMC on (real code + model kernel) is reported as a
VIOLATION only if the native replayer (/verif/replay, ordinary Rust binaries
with a path dependency on /repo, rebuilt from the current tree) observes a
violation of the same property on the real kernel.  Otherwise the model or the
harness is wrong and the check is inconclusive (exit 2).
"""
import json, os, re, subprocess, time

REPLAY_DIR = "/verif/replay"
BIN = REPLAY_DIR + "/target/debug/vreplay"
_built = False


def build():
    global _built
    if _built:
        return True, ""
    env = dict(os.environ)
    env["CARGO_NET_OFFLINE"] = "true"
    p = subprocess.run(["cargo", "build", "--offline"], cwd=REPLAY_DIR, env=env, stdout=subprocess.PIPE, stderr=subprocess.STDOUT)
    _built = p.returncode == 0
    return _built, p.stdout.decode("utf-8", "replace")[-800:]


def run_vreplay(args, timeout=300):
    ok, msg = build()
    if not ok:
        return None, "replay crate does not build: " + msg
    os.makedirs("/verif/.work/rt", exist_ok=True)
    try:
        # the replayer's own stdin, stdout and stderr must be three different objects, or
        # wiring mistakes between inherited streams would be invisible
        errf = open("/verif/.work/rt/vreplay.stderr", "w")
        p = subprocess.run([BIN] + args, stdout=subprocess.PIPE, stderr=errf, timeout=timeout,
                           stdin=open("/dev/zero", "rb"))
        return p.stdout.decode("utf-8", "replace"), None
    except subprocess.TimeoutExpired as e:
        return (e.stdout or b"").decode("utf-8", "replace") + "\nHANG (native watchdog %ds)\n" % timeout, None


def viol_lines(out, pid):
    v = []
    for l in out.split("\n"):
        m = re.match(r"^CASE (.*?) VIOL (%s/.*)$" % pid, l)
        if m:
            v.append({"scenario": m.group(1), "what": m.group(2)})
    return v


# harness-name prefix -> (family, extra args)
FAMILIES = [
    (r"^h_spawn_child_", "spawn", []),
    (r"^h_spawn_parent", "spawn", []),
    (r"^h_spawn_child", "spawn", []),
    (r"^h_fail_parent", "fail", []),
    (r"^h_fail_child", "fail", []),
    (r"^h_(argv|ident|env_dup$|env_two|exe_override)", "ident", []),
    (r"^h_(lookup|split)", "lookup", []),
    (r"^h_alloc", "alloc", []),
    (r"^h_poll", "comm", []),
    (r"^h_(life|wait)", "life", []),
    (r"^h_comm", "comm", []),
    (r"^h_(build|shell|clone|set_|stdin_data|env_)", "builder", []),
]


def family_of(short):
    for rx, fam, extra in FAMILIES:
        if re.search(rx, short):
            return fam, extra
    return None, None


def replay_counterexample(pid, item, result, seed):
    short = item.name.split("::")[-1]
    fam, extra = family_of(short)
    if fam is None:
        return None, {"note": "no native replayer registered for harness %s" % short}
    args = [fam, "focus=%s" % pid] + list(extra) + list(getattr(item, "replay_args", []) or [])
    out, err = run_vreplay(args)
    if out is None:
        return None, {"error": err}
    v = viol_lines(out, pid)
    m = re.search(r"SUMMARY .*cases=(\d+) violations=(\d+)", out)
    info = {"replayer": "vreplay " + " ".join(args), "cases": int(m.group(1)) if m else None,
            "native": v[:8], "scenario": v[0]["scenario"] if v else None}
    if not m and "HANG" not in out:
        info["error"] = out[-400:]
        return None, info
    return (len(v) > 0), info


def replay_file(pid, path):
    d = json.load(open(path))
    sc = d.get("scenario") or ""
    harness = d.get("harness", "").split("::")[-1]
    fam, extra = family_of(harness)
    if fam is None:
        return False, {"note": "no native replayer for %s" % harness}
    args = [fam, "focus=%s" % pid] + list(extra) + [kv for kv in sc.split() if "=" in kv]
    out, err = run_vreplay(args)
    if out is None:
        return False, {"error": err}
    v = viol_lines(out, pid)
    return len(v) > 0, {"replayer": "vreplay " + " ".join(args), "native": v[:8]}
