"""Regenerate the harness crate's view of /repo from the current working tree.

/repo/src/lib.rs -> /verif/.work/gen/mods.rs   (module tree, `mod x;` -> include!)
/repo/src/X.rs   -> /verif/.work/gen/X.rs      (verbatim + harness include! lines
                                                injected on the anchor line / at EOF,
                                                so line numbers are preserved)
A missing anchor is a GenError: the driver exits 2 (inconclusive), never a verdict.
"""
import os, re, hashlib

REPO = "/repo"
VERIF = "/verif"
GEN = VERIF + "/.work/gen"
HDIR = VERIF + "/kani/src"


class GenError(Exception):
    pass


# file -> list of (anchor regex matching ONE line (with the preceding line as context), harness file)
INJECT = {
    "posix": [],
    "popen": [(r"#\[cfg\(unix\)\]\nmod os \{", "h_popen_os.rs")],
    "communicate": [(r"#\[cfg\(unix\)\]\nmod raw \{", "h_comm_raw.rs")],
    "builder": [(r"\nmod exec \{", "h_exec.rs"), (r"\nmod pipeline \{", "h_pipeline.rs")],
    "os_common": [],
}
# Size cuts applied to the mounted copy only (never to /repo): (file, regex, replacement, why).
# Each is a stated bound of the claim; if the anchor is gone the copy is mounted unchanged.
CUTS = [
    ("communicate", r"let mut buf = &mut \[0u8; 4096\]\[\.\.\];", "let mut buf = &mut [0u8; 8][..];",
     "do_read's 4096-byte stack buffer shrunk to 8 bytes: a 4096-byte array per read call makes the SAT instance exceed 26 GB (measured); transfers in the model are <= 3 bytes anyway, and the clipping logic against the size limit is unchanged"),
]
APPLIED_CUTS = []

TAIL = {
    "posix": "h_posix.rs",
    "popen": "h_popen.rs",
    "communicate": "h_comm.rs",
    "builder": "h_builder.rs",
    "os_common": None,
}


def _write_if_changed(path, text):
    try:
        if open(path).read() == text:
            return
    except FileNotFoundError:
        pass
    with open(path, "w") as f:
        f.write(text)


def generate():
    os.makedirs(GEN, exist_ok=True)
    del APPLIED_CUTS[:]
    lib = open(REPO + "/src/lib.rs").read()
    out = []
    skip_tests = False
    depth = 0
    lines = lib.split("\n")
    i = 0
    mods = []
    while i < len(lines):
        ln = lines[i]
        if ln.startswith("//!") or ln.startswith("#!["):
            i += 1
            continue
        if ln.strip() == "#[cfg(test)]" and i + 1 < len(lines) and lines[i + 1].startswith("mod tests"):
            # skip the whole block
            i += 1
            depth = 0
            while i < len(lines):
                depth += lines[i].count("{") - lines[i].count("}")
                i += 1
                if depth == 0:
                    break
            continue
        m = re.match(r"^(pub )?mod (\w+);\s*$", ln)
        if m:
            name = m.group(2)
            mods.append(name)
            out.append('%smod %s { include!("%s/%s.rs"); }' % (m.group(1) or "", name, GEN, name))
        else:
            out.append(ln)
        i += 1
    _write_if_changed(GEN + "/mods.rs", "\n".join(out) + "\n")

    digest = hashlib.sha256()
    for name in mods:
        src = REPO + "/src/%s.rs" % name
        if name == "win32":
            # cfg(windows) only; mounted verbatim (never compiled on this target)
            _write_if_changed(GEN + "/win32.rs", open(src).read())
            continue
        text = open(src).read()
        digest.update(text.encode())
        if name not in INJECT:
            # a module this framework does not know: mount verbatim
            _write_if_changed(GEN + "/%s.rs" % name, text)
            continue
        for cname, rx, repl, why in CUTS:
            if cname == name:
                text2, n = re.subn(rx, repl, text)
                if n == 1:
                    text = text2
                    APPLIED_CUTS.append({"file": "src/%s.rs" % name, "from": rx, "to": repl, "why": why})
        for anchor, hfile in INJECT[name]:
            ms = list(re.finditer(anchor, text))
            if len(ms) != 1:
                raise GenError("anchor %r found %d times in src/%s.rs" % (anchor, len(ms), name))
            e = ms[0].end()
            text = text[:e] + ' include!("%s/%s");' % (HDIR, hfile) + text[e:]
        if TAIL.get(name):
            if not text.endswith("\n"):
                text += "\n"
            text += 'include!("%s/%s");\n' % (HDIR, TAIL[name])
        _write_if_changed(GEN + "/%s.rs" % name, text)
    return {"modules": mods, "source_sha256": digest.hexdigest(), "cuts": list(APPLIED_CUTS)}


if __name__ == "__main__":
    print(generate())
