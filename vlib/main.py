"""vcheck driver: regenerate -> codegen -> bounds -> solve -> vacuity -> replay -> evidence."""
import sys, os, json, time, argparse, traceback
from concurrent.futures import ThreadPoolExecutor

sys.path.insert(0, "/verif")
from vlib import gen, kani, registry, replay

VERIF = "/verif"
EVID = VERIF + "/evidence"
REPLAYS = VERIF + "/replays"


def load_known():
    try:
        return json.load(open(VERIF + "/known_findings.json"))
    except FileNotFoundError:
        return {"findings": [], "fixed": []}


def main(argv=None):
    ap = argparse.ArgumentParser()
    ap.add_argument("prop")
    ap.add_argument("--tier", default=os.environ.get("VERIF_TIER", "quick"), choices=["quick", "thorough"])
    ap.add_argument("--replay", default=None, help="re-run a stored counterexample scenario natively")
    ap.add_argument("--only", default=None, help="run only harnesses whose name contains this")
    ap.add_argument("--keep-going", action="store_true")
    a = ap.parse_args(argv)
    seed = int(os.environ.get("VERIF_SEED", "0") or 0)
    pid = a.prop
    t0 = time.time()

    if a.replay:
        ok, info = replay.replay_file(pid, a.replay)
        print(json.dumps(info, indent=1)[:4000])
        if ok:
            print("VIOLATION property=%s replay=%s" % (pid, a.replay))
            return 1
        return 0

    try:
        ginfo = gen.generate()
    except gen.GenError as e:
        print("INCONCLUSIVE property=%s reason=generator: %s" % (pid, e))
        return 2

    spec = registry.REG.get(pid)
    if spec is None:
        print("property %s has no check (see MANIFEST not_applicable)" % pid)
        return 2
    items = spec.items(a.tier)
    if a.only:
        items = [i for i in items if a.only in i.name]

    known = load_known()
    kf_by_harness = {f["harness"]: f for f in known.get("findings", []) if f.get("property") == pid}

    khs = [it for it in items if isinstance(it, kani.Harness)]
    target = "%s/target/%s" % (kani.WORK, pid)
    gotos = {}
    cg_err = None
    if khs:
        rc, out, dt = kani.codegen(target, khs)
        if rc != 0:
            errs = [l for l in out.split("\n") if l.startswith("error")]
            cg_err = "codegen failed (rc=%d): %s" % (rc, " | ".join(errs[:3])[:500] or out[-300:])
        else:
            for h in khs:
                gotos[h.name] = kani.find_symtab(target, h.short)
        print("[%s] codegen of %d harness(es): %.0fs" % (pid, len(khs), dt))
        sys.stdout.flush()

    def run_item(it):
        if isinstance(it, kani.Harness):
            if cg_err:
                return {"harness": it.name, "kind": it.kind, "status": "inconclusive", "reason": cg_err}
            g = gotos.get(it.name)
            if not g:
                return {"harness": it.name, "kind": it.kind, "status": "inconclusive",
                        "reason": "no GOTO binary for harness (not defined?)"}
            g2, err = kani.link_goto(g)
            if not g2:
                return {"harness": it.name, "kind": it.kind, "status": "inconclusive", "reason": "goto link: %s" % err}
            return kani.run_cbmc(it, g2, pid)
        return it.run(seed)

    results = []
    with ThreadPoolExecutor(max_workers=kani.NPAR) as ex:
        futs = [(it, ex.submit(run_item, it)) for it in items]
        for it, f in futs:
            try:
                r = f.result()
            except Exception as e:
                r = {"harness": it.name, "kind": getattr(it, "kind", "proof"), "status": "inconclusive",
                     "reason": "driver exception: %s" % traceback.format_exc()[-600:]}
            results.append(r)

    violations = []
    inconclusive = []
    known_lines = []
    for it, r in zip(items, results):
        kind = r.get("kind", "proof")
        st = r["status"]
        print("[%s] %-34s %-12s %6.1fs  %s" % (pid, r["harness"], st.upper() if kind == "proof" else "%s(%s)" % (st, kind),
                                             r.get("wall_s", 0), r.get("reason", "")[:200]))
        sys.stdout.flush()
        if kind == "twin":
            if st != "fail":
                inconclusive.append("vacuity twin %s did not fail (%s)" % (r["harness"], st))
            continue
        if kind == "kf":
            if st == "fail":
                f = kf_by_harness.get(r["harness"])
                if f:
                    known_lines.append("KNOWN-FINDING: property=%s %s" % (pid, f["what"]))
                    r["known_finding"] = f["id"]
                else:
                    violations.append((it, r))
            elif st == "inconclusive":
                inconclusive.append("%s: %s" % (r["harness"], r.get("reason")))
            continue
        if st == "pass":
            # vacuity guards: cover witnesses satisfied, tagged assertions reachable
            if r.get("covers_unsat"):
                inconclusive.append("%s: cover witness not satisfied: %s" % (r["harness"], r["covers_unsat"][:3]))
            if isinstance(it, kani.Harness) and not r.get("decided_tags"):
                inconclusive.append("%s: no tagged assertion of %s was reachable (vacuous harness)" % (r["harness"], pid))
        elif st == "fail":
            violations.append((it, r))
        else:
            inconclusive.append("%s: %s" % (r["harness"], r.get("reason")))

    # replay counterexamples natively before reporting them
    reported = []
    for it, r in violations:
        try:
            if r.get("self_replayed"):
                ok, info = True, {"scenario": r.get("counterexample"), "native": r.get("replay")}
            else:
                ok, info = replay.replay_counterexample(pid, it, r, seed)
        except Exception:
            ok, info = None, {"error": traceback.format_exc()[-800:]}
        r["replay"] = info
        if ok:
            os.makedirs(REPLAYS, exist_ok=True)
            path = "%s/%s_%s.json" % (REPLAYS, pid, r["harness"].split("::")[-1])
            json.dump({"property": pid, "harness": r["harness"], "failed": r.get("tagged_fail") or r.get("reason"),
                       "scenario": info.get("scenario"), "native": info.get("native")}, open(path, "w"), indent=1)
            reported.append(path)
        else:
            inconclusive.append("%s: counterexample (%s) did not reproduce natively: %s" % (
                r["harness"], r.get("reason", "")[:160], json.dumps(info)[:300]))

    write_evidence(pid, a.tier, seed, spec, items, results, ginfo, time.time() - t0, len(reported), known_lines)

    for l in known_lines:
        print(l)
    if reported:
        for p in reported:
            print("VIOLATION property=%s replay=%s" % (pid, p))
        return 1
    if inconclusive:
        for m in inconclusive:
            print("INCONCLUSIVE property=%s %s" % (pid, m))
        return 2
    print("OK property=%s tier=%s harnesses=%d wall=%.0fs" % (pid, a.tier, len(items), time.time() - t0))
    return 0



def write_evidence(pid, tier, seed, spec, items, results, ginfo, wall, nviol, known_lines):
    os.makedirs(EVID, exist_ok=True)
    n_checks = 0
    solver_s = 0.0
    symex_s = 0.0
    sat_calls = 0
    tags = set()
    covers = set()
    samples = []
    hs = []
    funcs = set()
    for r in results:
        n_checks += r.get("n_checks", 0) or r.get("queries", 0)
        st = r.get("stats", {})
        solver_s += st.get("solver_s", 0)
        symex_s += st.get("symex_s", 0)
        sat_calls += st.get("sat_calls", 0) or r.get("queries", 0)
        for c in r.get("covers_sat", []):
            covers.add(c)
        for t in r.get("decided_tags", []):
            tags.add(t)
        for s in r.get("samples", []):
            samples.append(s)
        for f in r.get("functions", []):
            funcs.add(f)
        hs.append({k: r.get(k) for k in ("harness", "kind", "status", "reason", "unwind", "bounds", "wall_s", "cbmc_s",
                                          "n_checks", "undetermined", "stats", "stubs", "loops_bounded", "note",
                                          "tagged_fail", "known_finding", "engine", "queries") if r.get(k) not in (None, [], {})})
    for r in results:
        for t in r.get("decided_tags", [])[:12]:
            samples.append({"obligation_decided": t, "harness": r["harness"].split("::")[-1], "verdict": "holds for every symbolic value within the bounds; its reachability marker is satisfiable"})
    for c in sorted(covers):
        samples.append({"cover_witness_satisfied": c})
    if not samples:
        samples = [{"harness": h["harness"], "status": h["status"]} for h in hs]
    ev = {
        "property_id": pid,
        "tier": tier,
        "seed": seed,
        "level": "model_checking",
        "coverage": {
            "evaluations": max(1, n_checks),
            "distinct_nontrivial": len(covers) + len(tags),
            "rule": "evaluations = properties (assertions, unwinding assertions, reachability checks, SMT queries) decided by the solver in this run; "
                    "distinct_nontrivial = distinct cover witnesses the solver satisfied (each is a concrete scenario class reached inside the bound, "
                    "the vacuity guard) plus distinct SMT obligations decided unsat with a sat sanity twin",
            "samples": samples[:60],
            "exhaustive": False,
            "solver_queries": sat_calls,
            "solver_time_s": round(solver_s, 2),
            "symex_time_s": round(symex_s, 2),
            "harnesses": hs,
            "functions_encoded": sorted(funcs)[:200] or spec.encodes,
            "bounds": spec.bounds.get(tier, spec.bounds.get("quick", "")) if isinstance(spec.bounds, dict) else spec.bounds,
            "outside_bounds": spec.outside,
            "source_sha256": ginfo.get("source_sha256"),
            "size_cuts_in_mounted_copy": [c for c in ginfo.get("cuts", []) if any(c["file"].split("/")[-1][:-3] in (f or "") for f in [" ".join(spec.encodes).lower()])] or ginfo.get("cuts", []),
            "known_findings_reported": known_lines,
            "explanation": spec.explanation,
        },
        "assumptions": spec.assumptions,
        "wall_s": round(wall, 1),
        "violations": nviol,
    }
    if ev["coverage"]["distinct_nontrivial"] < 2:
        ev["coverage"]["distinct_nontrivial"] = 0
    json.dump(ev, open("%s/%s.json" % (EVID, pid), "w"), indent=1)


if __name__ == "__main__":
    sys.exit(main())
