"""Per-property check specifications: harnesses per tier, bounds, assumptions."""
from vlib.kani import Harness


class Spec:
    def __init__(self, quick, thorough=None, encodes=None, bounds="", outside="", assumptions=None, explanation=""):
        self.quick = quick
        self.thorough = thorough
        self.encodes = encodes or []
        self.bounds = bounds
        self.outside = outside
        self.assumptions = assumptions or []
        self.explanation = explanation

    def items(self, tier):
        if tier == "thorough" and self.thorough is not None:
            return self.thorough
        return self.quick


COMMON_ASSUME = [
    "model kernel /verif/kani/src/mk/*.rs stands in for libc (linked with cargo kani -Z c-ffi); its calls return any result their POSIX/Linux contract allows",
    "crate::posix::fcntl (8-line variadic FFI wrapper) is stubbed by mk::fcntl_model; its body is outside every claim",
    "popen::get_standard_stream is stubbed by a wrapper calling the real posix::make_standard_stream (Kani 0.68 cannot compile thread_local! with a destructor); the per-thread cache is outside the claim",
    "CBMC run with unwinding assertions on; memory-safety and overflow instrumentation off (the properties are functional)",
    "EINTR is not injected",
]

SPAWN_UW = [(r"vh_popen::make_streams", 4), (r"drop_glue::<\[", 5), (r"vh_popen::split_n", 20), (r"vh_popen::spawn_parent", 17)]

REG = {}

MODS = {"popen": "popen::vh_popen::", "popen_os": "popen::os::vh_popen_os::", "posix": "posix::vh_posix::",
        "comm": "communicate::vh_comm::", "comm_raw": "communicate::raw::vh_comm_raw::",
        "exec": "builder::exec::vh_exec::", "pipeline": "builder::pipeline::vh_pipeline::", "builder": "builder::vh_builder::"}


def H(mod, name, **kw):
    return Harness(MODS[mod] + name, **kw)


SPAWN_BOUNDS = {"stream_config": "symbolic: all 5x5x5 of {None,Pipe,Merge,File,RcFile}, shared/unshared Rc<File>, file close-on-exec flag",
                "earlier_popens_alive": "0..2 (child role) / 2 (parent role)", "argv": "[\"/p\"]", "signal_mask": "any u64", "fd_table": 16}
SPAWN_ENC = ["Popen::create", "Popen::setup_streams (+ prepare_pipe, prepare_file, prepare_rc_file, reuse_stream)", "PopenOs::os_start",
             "PopenOsImpl::do_exec", "os::set_inheritable", "os::make_pipe", "Drop for Popen", "PopenOs::os_wait", "PopenOsImpl::waitpid",
             "posix::{pipe,fork,dup2,prep_exec,PrepExec::{new,exec,assemble_exe,libc_exec},CVec::new,reset_sigpipe,make_standard_stream,waitpid,_exit,check_err}"]
SPAWN_ASSUME = COMMON_ASSUME + ["parent fds 0,1,2 are open; new descriptors are allocated lowest-free (POSIX)",
                                "io::Error's CustomOwner::outer_drop function pointer is pinned to alloc's drop_box_raw::<Custom> (the only value ever stored there); virtual calls restricted by -Z restrict-vtable"]


def spawn_child_h():
    return H("popen", "h_spawn_child", unwind=3, unwindset=SPAWN_UW, timeout=1500, bounds=SPAWN_BOUNDS,
             covers=["COVER/exec-started", "COVER/fork-child-role", "COVER/invalid-config-returned"])


def spawn_parent_h():
    return H("popen", "h_spawn_parent", unwind=3, unwindset=SPAWN_UW, timeout=1500, bounds=SPAWN_BOUNDS, covers=["COVER/parent-ok"])


def fail_parent_h():
    b = dict(SPAWN_BOUNDS)
    b.update({"fault_point": "k-th of the pipe/fcntl/fork calls, k in 1..=17 (there are at most 15), or child-side failure reported on the status pipe",
              "errno": "any 1..=4095", "detached": "any"})
    return H("popen", "h_fail_parent", unwind=3, unwindset=SPAWN_UW, timeout=2400, bounds=b,
             covers=["COVER/parent-launch-error", "COVER/parent-fault-pipe", "COVER/parent-fault-fcntl", "COVER/parent-fault-fork"])


REG["C05"] = Spec(
    quick=[spawn_child_h(), spawn_parent_h()],
    encodes=SPAWN_ENC,
    bounds="configuration space finite and covered completely and symbolically: 5x5x5 redirection kinds, shared/unshared Rc<File>, file close-on-exec flag, 0..2 earlier Popens alive; descriptor table of 16 entries; one spawn (repeated spawns follow by induction on the pre-state invariant: fds 0-2 open and untouched)",
    outside="parents whose fds 0-2 are closed; the STREAMS thread-local cache (short-lived threads: only make_standard_stream's leaked Rc is encoded); Windows",
    assumptions=SPAWN_ASSUME,
    explanation="bounded model checking (Kani -> CBMC, SAT) of the real spawn path in child role (wiring asserted inside the model exec) and in parent role (handles, identity of parent ends, own std streams) over a fully symbolic stream configuration",
)

REG["C07"] = Spec(
    quick=[fail_parent_h(), spawn_parent_h()],
    encodes=SPAWN_ENC,
    bounds="every stream configuration x every injection point of the parent side (k-th pipe()/fcntl()/fork() failing, k symbolic) x child-side failure reported through the status pipe x errno 1..=4095 x detached",
    outside="short or failing read of the 4-byte status report; EINTR; child-side steps themselves (h_fail_child, see C07 child harness)",
    assumptions=SPAWN_ASSUME + ["a child whose launch failed _exit()s right after reporting (model: becomes a zombie when the report is read)"],
    explanation="bounded model checking of Popen::create in parent role with symbolic fault injection in the model kernel; asserted at return: Ok iff started, exact errno, descriptor table back to the pre-call table, forked child reaped",
)

REG["C08"] = Spec(
    quick=[spawn_child_h(), spawn_parent_h()],
    encodes=SPAWN_ENC,
    bounds="single spawn from a pre-state holding 0..2 earlier Popens' parent ends (invariant: close-on-exec), every stream configuration",
    outside="two spawns actually interleaving on different threads (see known finding: pipe()+fcntl window); pipelines (C13 harness)",
    assumptions=SPAWN_ASSUME,
    explanation="inductive step over spawn histories: pre-state = arbitrary earlier parent ends satisfying the invariant, one real Popen::create; at the model exec no library pipe end above fd 2 survives; after create every parent end is close-on-exec and every child end is closed in the parent",
)

REG["C18"] = Spec(
    quick=[spawn_child_h()],
    encodes=["posix::reset_sigpipe", "PopenOsImpl::do_exec", "PopenOs::os_start"],
    bounds="spawning thread's signal mask: any of 2^64; SIGPIPE ignored in the parent; every stream configuration",
    outside="pipeline stages (same do_exec, covered by the C13 pipeline harness)",
    assumptions=SPAWN_ASSUME,
    explanation="bounded model checking of the child role: at the model exec the mask is empty and SIGPIPE is at default, on every path that reaches exec",
)
