"""Per-property check specifications: harnesses per tier, bounds, assumptions."""
from vlib.kani import Harness


class Spec:
    def __init__(self, quick, thorough=None, encodes=None, bounds="", outside="", assumptions=None, explanation=""):
        self.quick = quick
        self.thorough = thorough
        self.encodes = encodes or []
        self.bounds = bounds
        self.outside = outside
        self.assumptions = assumptions or []
        self.explanation = explanation

    def items(self, tier):
        if tier == "thorough" and self.thorough is not None:
            return self.thorough
        return self.quick


COMMON_ASSUME = [
    "model kernel /verif/kani/src/mk/*.rs stands in for libc (linked with cargo kani -Z c-ffi); its calls return any result their POSIX/Linux contract allows",
    "crate::posix::fcntl (8-line variadic FFI wrapper) is stubbed by mk::fcntl_model; its body is outside every claim",
    "popen::get_standard_stream is stubbed by a wrapper calling the real posix::make_standard_stream (Kani 0.68 cannot compile thread_local! with a destructor); the per-thread cache is outside the claim",
    "CBMC run with unwinding assertions on; memory-safety and overflow instrumentation off (the properties are functional)",
    "EINTR is not injected",
]

SPAWN_UW = [(r"vh_popen::make_streams", 4), (r"drop_glue::<\[", 5), (r"vh_popen::split_n", 20), (r"vh_popen::spawn_parent", 17)]

REG = {}


class PyItem:
    """a check implemented by a python module exposing run(tier, seed) -> result dict
    (SMT encodings generated from the MIR, extracted cfg(windows) code); such modules
    replay their own counterexamples natively before returning status "fail"."""

    def __init__(self, name, path, tier):
        self.name = name
        self.path = path
        self.tier = tier
        self.kind = "proof"

    def run(self, seed):
        import importlib.util
        spec = importlib.util.spec_from_file_location("vmod_" + self.name, self.path)
        mod = importlib.util.module_from_spec(spec)
        spec.loader.exec_module(mod)
        res = mod.run(self.tier, seed)
        res.setdefault("harness", self.name)
        res.setdefault("kind", "proof")
        res["self_replayed"] = True
        return res


MODS = {"popen": "popen::vh_popen::", "popen_os": "popen::os::vh_popen_os::", "posix": "posix::vh_posix::",
        "comm": "communicate::vh_comm::", "comm_raw": "communicate::raw::vh_comm_raw::",
        "exec": "builder::exec::vh_exec::", "pipeline": "builder::pipeline::vh_pipeline::", "builder": "builder::vh_builder::"}


def H(mod, name, **kw):
    return Harness(MODS[mod] + name, **kw)


SPAWN_BOUNDS = {"stream_config": "symbolic: all 5x5x5 of {None,Pipe,Merge,File,RcFile}, shared/unshared Rc<File>, file close-on-exec flag",
                "earlier_popens_alive": "0..2 (child role) / 2 (parent role)", "argv": "[\"/p\"]", "signal_mask": "any u64", "fd_table": 16}
SPAWN_ENC = ["Popen::create", "Popen::setup_streams (+ prepare_pipe, prepare_file, prepare_rc_file, reuse_stream)", "PopenOs::os_start",
             "PopenOsImpl::do_exec", "os::set_inheritable", "os::make_pipe", "Drop for Popen", "PopenOs::os_wait", "PopenOsImpl::waitpid",
             "posix::{pipe,fork,dup2,prep_exec,PrepExec::{new,exec,assemble_exe,libc_exec},CVec::new,reset_sigpipe,make_standard_stream,waitpid,_exit,check_err}"]
SPAWN_ASSUME = COMMON_ASSUME + ["parent fds 0,1,2 are open; new descriptors are allocated lowest-free (POSIX)",
                                "io::Error's CustomOwner::outer_drop function pointer is pinned to alloc's drop_box_raw::<Custom> (the only value ever stored there); virtual calls restricted by -Z restrict-vtable"]


def spawn_child_h():
    return H("popen", "h_spawn_child", unwind=3, unwindset=SPAWN_UW, timeout=1500, bounds=SPAWN_BOUNDS,
             covers=["COVER/exec-started", "COVER/fork-child-role", "COVER/invalid-config-returned"])


def spawn_parent_h():
    return H("popen", "h_spawn_parent", unwind=3, unwindset=SPAWN_UW, timeout=1500, bounds=SPAWN_BOUNDS, covers=["COVER/parent-ok"])


def fail_parent_h():
    b = dict(SPAWN_BOUNDS)
    b.update({"fault_point": "k-th of the pipe/fcntl/fork calls, k in 1..=17 (there are at most 15), or child-side failure reported on the status pipe",
              "errno": "any 1..=4095", "detached": "any"})
    return H("popen", "h_fail_parent", unwind=3, unwindset=SPAWN_UW, timeout=2400, bounds=b,
             covers=["COVER/parent-launch-error", "COVER/parent-fault-pipe", "COVER/parent-fault-fcntl", "COVER/parent-fault-fork"])


REG["C05"] = Spec(
    quick=[spawn_child_h(), spawn_parent_h()],
    encodes=SPAWN_ENC,
    bounds="configuration space finite and covered completely and symbolically: 5x5x5 redirection kinds, shared/unshared Rc<File>, file close-on-exec flag, 0..2 earlier Popens alive; descriptor table of 16 entries; one spawn (repeated spawns follow by induction on the pre-state invariant: fds 0-2 open and untouched)",
    outside="parents whose fds 0-2 are closed; the STREAMS thread-local cache (short-lived threads: only make_standard_stream's leaked Rc is encoded); Windows",
    assumptions=SPAWN_ASSUME,
    explanation="bounded model checking (Kani -> CBMC, SAT) of the real spawn path in child role (wiring asserted inside the model exec) and in parent role (handles, identity of parent ends, own std streams) over a fully symbolic stream configuration",
)

REG["C07"] = Spec(
    quick=[fail_parent_h(), spawn_parent_h()],
    encodes=SPAWN_ENC,
    bounds="every stream configuration x every injection point of the parent side (k-th pipe()/fcntl()/fork() failing, k symbolic) x child-side failure reported through the status pipe x errno 1..=4095 x detached",
    outside="short or failing read of the 4-byte status report; EINTR; child-side steps themselves (h_fail_child, see C07 child harness)",
    assumptions=SPAWN_ASSUME + ["a child whose launch failed _exit()s right after reporting (model: becomes a zombie when the report is read)"],
    explanation="bounded model checking of Popen::create in parent role with symbolic fault injection in the model kernel; asserted at return: Ok iff started, exact errno, descriptor table back to the pre-call table, forked child reaped",
)

REG["C08"] = Spec(
    quick=[spawn_child_h(), spawn_parent_h()],
    encodes=SPAWN_ENC,
    bounds="single spawn from a pre-state holding 0..2 earlier Popens' parent ends (invariant: close-on-exec), every stream configuration",
    outside="two spawns actually interleaving on different threads (see known finding: pipe()+fcntl window); pipelines (C13 harness)",
    assumptions=SPAWN_ASSUME,
    explanation="inductive step over spawn histories: pre-state = arbitrary earlier parent ends satisfying the invariant, one real Popen::create; at the model exec no library pipe end above fd 2 survives; after create every parent end is close-on-exec and every child end is closed in the parent",
)

REG["C18"] = Spec(
    quick=[spawn_child_h()],
    encodes=["posix::reset_sigpipe", "PopenOsImpl::do_exec", "PopenOs::os_start"],
    bounds="spawning thread's signal mask: any of 2^64; SIGPIPE ignored in the parent; every stream configuration",
    outside="pipeline stages (same do_exec, covered by the C13 pipeline harness)",
    assumptions=SPAWN_ASSUME,
    explanation="bounded model checking of the child role: at the model exec the mask is empty and SIGPIPE is at default, on every path that reaches exec",
)


LIFE_BOUNDS = {"pre_state": "any state satisfying invariant I (Running{pid} with the model child running / zombie / reaped by someone else; Finished(s) with s = truth or Undetermined)",
               "status_word": "exit(c) for all c in 0..=255; fatal signal s in 1..=126 with and without core flag",
               "world": "child may exit and a foreign waiter may reap it at every system call (both switches symbolic)",
               "operation": "one of poll, wait, wait_timeout(0), send_signal(any i32), terminate, kill, detach, pid/exit_status"}
LIFE_ENC = ["Popen::{poll,wait,wait_timeout,pid,exit_status,detach,terminate,kill}", "PopenOs::{os_wait,os_wait_timeout,os_terminate,os_kill}",
            "PopenOsImpl::waitpid", "PopenExt::send_signal", "posix::{waitpid,decode_exit_status,kill,check_err}", "libc::{WIFEXITED,WEXITSTATUS,WIFSIGNALED,WTERMSIG}", "Drop for Popen"]
LIFE_ASSUME = COMMON_ASSUME[:1] + COMMON_ASSUME[3:] + [
    "waitpid fails only with ECHILD (child reaped elsewhere); stopped/continued children are not reported (no WUNTRACED)",
    "io::Error's CustomOwner::outer_drop function pointer pinned; virtual calls restricted by -Z restrict-vtable"]


def life_step():
    return H("popen", "h_life_step", unwind=3, unwindset=[(r"os_wait_timeout", 4)], timeout=1200, bounds=LIFE_BOUNDS, covers=["COVER/wait-on-running"])


def life_seq():
    b = dict(LIFE_BOUNDS)
    b["operation"] = "three operations in sequence from Running (needs no invariant)"
    return H("popen", "h_life_seq", unwind=3, unwindset=[(r"os_wait_timeout", 4)], timeout=3600, mem_gb=24, bounds=b)


def life_drop():
    return H("popen", "h_life_drop", unwind=3, timeout=1200, bounds=LIFE_BOUNDS)


REG["C09"] = Spec(
    quick=[life_step(), life_drop()],
    thorough=[life_step(), life_drop(), life_seq()],
    encodes=LIFE_ENC,
    bounds={"quick": "inductive step: one symbolic operation from every state satisfying invariant I; all exit codes 0..=255 and signals 1..=126", "thorough": "plus every sequence of three operations from Running"},
    outside="waitpid returning a different pid than asked; stopped children; Windows",
    assumptions=LIFE_ASSUME,
    explanation="inductive step over API histories: symbolic pre-state constrained by invariant I, one real operation against a model child that may exit / be reaped by a foreign waiter at every system call; I and the reported-status oracle asserted afterwards",
)
REG["C10"] = Spec(
    quick=[life_step()],
    thorough=[life_step(), life_seq()],
    encodes=LIFE_ENC,
    bounds={"quick": "one signalling call (any i32 signal number, SIGTERM, SIGKILL) from every state satisfying invariant I; kill() succeeds or fails", "thorough": "plus sequences of three operations where reaping and signalling interleave"},
    outside="Windows TerminateProcess path",
    assumptions=LIFE_ASSUME,
    explanation="the model kill() logs (pid, signal) and asserts the pid was not reaped by this Popen; harness asserts exactly one kill with the requested signal while Running, none once Finished",
)


def wait_h(name, uw, b):
    return H("popen", name, unwind=3, unwindset=[(r"os_wait_timeout", uw)], timeout=3000, mem_gb=20, bounds=b,
             covers=["COVER/wait-timeout-exited"] + (["COVER/wait-timeout-expired"] if "small" in name else []))


WB = {"clock": "virtual monotonic clock, start any (sec < 2^40, nsec); advances only in sleeps (no drift)", "child": "exits at any status check or never; pre-state any (also already Finished)"}
REG["C11"] = Spec(
    quick=[life_step(),
           wait_h("h_wait_small", 7, dict(WB, d="0..=20 ms, nanosecond resolution (doubling phase 1,2,4,8 ms + clipped last sleep)")),
           wait_h("h_wait_large", 7, dict(WB, d="1 s .. 2^40 s; child exits within the first 4 back-off intervals"))],
    thorough=[life_step(),
              wait_h("h_wait_small_t", 12, dict(WB, d="0..=420 ms (whole doubling phase 1..64 ms and three steady-state 100 ms iterations)")),
              wait_h("h_wait_large_t", 12, dict(WB, d="1 s .. 2^40 s; child exits within the first 9 back-off intervals"))],
    encodes=["Popen::{poll,wait_timeout}", "PopenOs::os_wait_timeout", "PopenOsImpl::waitpid", "std::time::{Instant,Duration} arithmetic", "std::thread::sleep"],
    bounds={"quick": "d in [0,20 ms] complete; d in [1 s, 2^40 s] for the first 4 iterations", "thorough": "d in [0,420 ms] complete; large d for the first 9 iterations (steady state reached: later iterations repeat the 100 ms body)"},
    outside="real scheduler oversleep (the model sleeps exactly); 'still running' for d > 420 ms (needs more iterations than the bound; the loop body is uniform from the 8th iteration on); Windows WaitForSingleObject",
    assumptions=LIFE_ASSUME + ["the clock advances only while sleeping (zero drift between clock reads)"],
    explanation="virtual clock: time is a symbolic variable; the model nanosleep asserts each requested sleep is <= 100 ms, never passes the deadline, is >= 1 ms unless it ends exactly at the deadline, and doubles; at return None implies now >= deadline; number of status checks <= sleeps + 1",
)
REG["C12"] = Spec(
    quick=[life_drop(), spawn_parent_h()],
    encodes=["Drop for Popen", "Popen::detach", "PopenOs::os_wait", "Popen::create (parent role)"],
    bounds="drop of a bare Popen from every state satisfying invariant I (detached or not); drop right after a successful create for every stream configuration",
    outside="the stream adapters and join/capture terminators (adapter harnesses: see level_note / DESIGN.md)",
    assumptions=LIFE_ASSUME,
    explanation="drop of a non-detached Popen ends with its child reaped; drop of a detached Popen makes no wait call and does not reap",
)
C06_B = {"argv": "[\"/p\", a] with a of concrete length 0, 1, 2 over all 255 non-NUL byte values per position; argv of 1 element; optional executable override", "nul": "a NUL at any position of a 1- or 2-byte argument"}
REG["C06"] = Spec(
    quick=[H("popen", n, unwind=3, unwindset=SPAWN_UW + [(r"mk::proc_::c(str_eq|06_checks)", 8), (r"memchr", 6)], timeout=1500, bounds=C06_B)
           for n in ("h_argv_s2", "h_argv_s1", "h_argv_e", "h_argv_none", "h_argv_nul_s2", "h_argv_nul_s1", "h_ident")],
    encodes=["Popen::create", "PopenOs::os_start", "PopenOsImpl::do_exec", "posix::{os_to_cstring,CVec::new,CVec::as_c_vec,prep_exec,PrepExec::{new,exec,assemble_exe,libc_exec},setuid,setgid,setpgid}", "std::env::set_current_dir"],
    bounds="argument vectors of 1..=2 entries, the symbolic entry of length 0..=2 over all non-NUL bytes (so empty, blank, quote and non-UTF-8 arguments are in); NUL anywhere; cwd of 2 symbolic bytes; setuid/setgid any u32 (uid != 0), each present or absent, setpgid on/off; parent is root",
    outside="vectors of 3+ arguments and arguments of 3+ bytes (SAT back end out of memory at 14 GB, measured); the environment de-duplication (format_env over HashSet/SipHash: CBMC does not finish in 20 min even with concrete names, measured) -- only 'environment unspecified => execv (inherit)' is decided; Windows format_env_block",
    assumptions=SPAWN_ASSUME + ["credentials follow POSIX: setuid as root sets all three ids; setgid needs euid 0 or a matching real/saved gid"],
    explanation="child role: the model exec compares the argv array, program path, cwd and credentials it receives with the harness's own copy of the request",
)


POSIX_UW = [(r"vh_posix::(lookup_all_masks|h_alloc_path)", 18), (r"vh_posix::", 14), (r"strlen", 8), (r"memchr", 8), (r"memcmp", 8), (r"posix::split_path", 8),
            (r"position", 8), (r"PrepExec", 6), (r"mk::proc_::exec_common", 14)]
LK_B = {"PATH": "every string of exactly n bytes over {':', 'd'} (shape case-split inside the harness, all 2^n shapes), n = 1..=4", "command": "\"c\" or \"cc\"",
        "candidate_fate": "each of up to 3 candidates: starts / ENOENT / EACCES / ENOTDIR (symbolic)"}


def lookup_h(n):
    return H("posix", "h_lookup_%d" % n, unwind=3, unwindset=POSIX_UW, timeout=1500, bounds=dict(LK_B, n=n))


REG["C15"] = Spec(
    quick=[H("posix", "h_split", unwind=3, unwindset=POSIX_UW, timeout=900, covers=["COVER/three-path-entries", "COVER/only-empty-entries"],
             bounds={"PATH": "every byte string of length 0..=5 over all 256 byte values"}),
           lookup_h(1), lookup_h(2), lookup_h(3),
           H("posix", "h_lookup_nosearch", unwind=3, unwindset=POSIX_UW, timeout=900, covers=["COVER/no-search"],
             bounds={"cases": "name with leading slash, name with embedded slash, PATH unset, PATH empty, PATH=\"d:\" through the real prep_exec"})],
    thorough=[H("posix", "h_split", unwind=3, unwindset=POSIX_UW, timeout=900), lookup_h(1), lookup_h(2), lookup_h(3), lookup_h(4),
              H("posix", "h_lookup_nosearch", unwind=3, unwindset=POSIX_UW, timeout=900)],
    encodes=["posix::split_path", "posix::prep_exec", "posix::PrepExec::{new,exec,assemble_exe,libc_exec}", "posix::CVec::new"],
    bounds="tokenizer: all byte strings up to 5 bytes; lookup: all PATH shapes up to 3 (quick) / 4 (thorough) bytes = up to 2-3 entries incl. empty, duplicate and only-empty entries, every combination of candidate fates",
    outside="very long entries (buffer sizing is C17's harness); PATH bytes other than ':'/'d' in the lookup harnesses (arbitrary bytes are covered for the tokenizer only); the executable override (os_start passes it as cmd: same function); std::env::var_os is stubbed by a model environment in h_lookup_nosearch (std's implementation exhausts the SAT back end, measured)",
    assumptions=COMMON_ASSUME[:1] + COMMON_ASSUME[3:] + ["exec of a candidate either starts it or fails with ENOENT/EACCES/ENOTDIR"],
    explanation="the model exec records every candidate path and answers from a symbolic per-candidate verdict; asserted: candidate sequence = <entry>/<name> for the non-empty entries in order, each once, stop at the first that starts, Err with the last candidate's errno when none starts, never Ok without exec",
)
REG["C17"] = Spec(
    quick=[H("popen", "h_alloc_witness", unwind=3, timeout=300),
           H("popen", "h_alloc_child", unwind=3, unwindset=SPAWN_UW, timeout=1800, bounds=dict(SPAWN_BOUNDS, child_steps="no failure, or the k-th of chdir/dup2/setuid/setgid/setpgid/exec fails (k symbolic)", cwd="absent or \"/d\"")),
           H("posix", "h_alloc_path", unwind=3, unwindset=POSIX_UW, timeout=1500, covers=["COVER/two-candidates-assembled"],
             bounds={"PATH": "all 16 shapes of 4 bytes over {':','d'} (longest entry first/last, only empty entries)", "command": "\"cc\"", "fates": "symbolic"})],
    encodes=["PopenOs::os_start (child branch)", "PopenOsImpl::do_exec", "posix::PrepExec::{exec,assemble_exe,libc_exec}", "posix::reset_sigpipe", "error report path (write_all to the status pipe, _exit)", "std::env::set_current_dir"],
    bounds="every stream configuration; success and each child-side step failing; PATH shapes of 4 bytes; cwd short (stack buffer path of std's run_with_cstr)",
    outside="cwd of 384+ bytes (std allocates a CString for long paths -- in std, not in the crate); deallocation is not counted; allocation inside libc calls",
    assumptions=SPAWN_ASSUME + ["observer: std::alloc::{alloc,alloc_zeroed,realloc} stubbed by counting wrappers delegating to System (h_alloc_witness proves Vec/Box/CString/Rc/Vec-growth move the counter in this build)"],
    explanation="the model fork snapshots an allocation counter in child role; every later model call (each child-side step, exec, the error report write, _exit) asserts the counter has not moved",
)


REG["C19"] = Spec(
    quick=[PyItem("c19_smt", "/verif/enc/c19/run.py", "quick")],
    thorough=[PyItem("c19_smt", "/verif/enc/c19/run.py", "thorough")],
    encodes=["builder::exec::Exec::display_escape", "display_escape::nice_char"],
    bounds={"quick": "every Unicode string (code points 1..0x10FFFF minus surrogates) of length 0..=4", "thorough": "length 0..=6"},
    outside="joining of words (to_cmdline_lossy / Debug: command first, arguments in order separated by single spaces, stages joined by ' | ') -- Kani cannot execute the String formatting in useful time (measured in round 0) and the Exec-based harnesses exhaust the SAT back end; non-Unicode OsStr; to_string_lossy; reserved words in command position",
    assumptions=["Iterator::all, str::chars, str::replace, fmt::format and Cow behave as documented (std is not translated); the composed model is validated on every run against the compiled source text of display_escape on the repo's own test strings plus 300 seeded random strings",
                 "POSIX sh word parsing as encoded by the automaton (unquoted / single-quoted / backslash); every accepted word is additionally evaluated with the real /bin/sh during validation"],
    explanation="nice_char is translated statement by statement from the nightly's MIR into a bit-vector predicate; display_escape is recognised structurally and its constants extracted; the negated round-trip property over bounded code-point sequences is discharged by z3 and cross-checked with cvc5; a sat answer is replayed against the compiled function and the real sh",
)
REG["C20"] = Spec(
    quick=[PyItem("c20", "/verif/enc/c20/run.py", "quick")],
    thorough=[PyItem("c20", "/verif/enc/c20/run.py", "thorough")],
    encodes=["popen::os::assemble_cmdline (cfg(windows), source text extracted)", "popen::os::append_quoted (cfg(windows), source text extracted)"],
    bounds={"quick": "argument vectors of 1..=2 arguments, each 0..=3 UTF-16 units, every unit over all 65536 values", "thorough": "up to 3 arguments x up to 4 units (selected length vectors)"},
    outside="execution on Windows, CreateProcess itself; longer arguments (same loop bodies)",
    assumptions=["argv[0] contains no double quote and, when it needs quoting, does not end in a backslash (program-name parsing rule does not unescape)",
                 "under Kani, Vec in the extracted text is a fixed-capacity array-backed model (overflow is an assertion failure); the native replayer runs the same text on std::Vec",
                 "reference parser written from the documented Microsoft CRT / CommandLineToArgvW rules; an independent Python transcription must agree with it on Microsoft's published examples"],
    explanation="the cfg(windows) functions are extracted textually on every run, compiled against a UTF-16 shim and model-checked by Kani/CBMC: parse_ms(assemble_cmdline(argv)) == argv for symbolic contents; counterexamples are replayed natively against an independent parser",
)
