"""Per-property check specifications: harnesses per tier, bounds, assumptions."""
from vlib.kani import Harness


class Spec:
    def __init__(self, quick, thorough=None, encodes=None, bounds="", outside="", assumptions=None, explanation=""):
        self.quick = quick
        self.thorough = thorough
        self.encodes = encodes or []
        self.bounds = bounds
        self.outside = outside
        self.assumptions = assumptions or []
        self.explanation = explanation

    def items(self, tier):
        if tier == "thorough" and self.thorough is not None:
            return self.thorough
        return self.quick


COMMON_ASSUME = [
    "model kernel /verif/kani/src/mk/*.rs stands in for libc (linked with cargo kani -Z c-ffi); its calls return any result their POSIX/Linux contract allows",
    "crate::posix::fcntl (8-line variadic FFI wrapper) is stubbed by mk::fcntl_model; its body is outside every claim",
    "popen::get_standard_stream is stubbed by a wrapper calling the real posix::make_standard_stream (Kani 0.68 cannot compile thread_local! with a destructor); the per-thread cache is outside the claim",
    "CBMC run with unwinding assertions on; memory-safety and overflow instrumentation off (the properties are functional)",
    "EINTR is not injected",
]

SPAWN_UW = [(r"vh_popen::make_streams", 4), (r"drop_glue::<\[", 5)]

REG = {}

MODS = {"popen": "popen::vh_popen::", "popen_os": "popen::os::vh_popen_os::", "posix": "posix::vh_posix::",
        "comm": "communicate::vh_comm::", "comm_raw": "communicate::raw::vh_comm_raw::",
        "exec": "builder::exec::vh_exec::", "pipeline": "builder::pipeline::vh_pipeline::", "builder": "builder::vh_builder::"}


def H(mod, name, **kw):
    return Harness(MODS[mod] + name, **kw)


REG["C05"] = Spec(
    quick=[
        H("popen", "h_spawn_child_c05_" + s, unwind=3, unwindset=SPAWN_UW, timeout=900,
          bounds={"stream_config": "stdin=%s x all 5x5 (stdout,stderr) of {None,Pipe,Merge,File,RcFile} x shared/unshared Rc<File> x file cloexec flag" % s,
                  "earlier_popens": 0, "argv": "[\"/p\"]", "signal_mask": "any u64"})
        for s in ("none", "pipe", "file", "rc", "merge")
    ],
    encodes=["Popen::create", "Popen::setup_streams", "PopenOs::os_start", "PopenOsImpl::do_exec", "os::set_inheritable",
             "posix::{pipe,fork,dup2,prep_exec,reset_sigpipe,make_standard_stream}"],
    bounds="configuration space finite and fully symbolic: 5x5x5 redirection kinds, shared/unshared Rc<File>, 0..2 earlier Popens alive; descriptor table of 12 entries",
    outside="parents whose fds 0-2 are closed; the STREAMS thread-local cache; Windows",
    assumptions=COMMON_ASSUME + ["parent fds 0,1,2 are open; new descriptors are allocated lowest-free (POSIX)"],
    explanation="bounded model checking (Kani/CBMC, SAT) of the real spawn path over a symbolic stream configuration; wiring asserted inside the model exec()",
)
