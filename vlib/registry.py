"""Per-property check specifications: harnesses per tier, bounds, assumptions."""
from vlib.kani import Harness


class Spec:
    def __init__(self, quick, thorough=None, encodes=None, bounds="", outside="", assumptions=None, explanation=""):
        self.quick = quick
        self.thorough = thorough
        self.encodes = encodes or []
        self.bounds = bounds
        self.outside = outside
        self.assumptions = assumptions or []
        self.explanation = explanation

    def items(self, tier):
        if tier == "thorough" and self.thorough is not None:
            return self.thorough
        return self.quick


COMMON_ASSUME = [
    "model kernel /verif/kani/src/mk/*.rs stands in for libc (linked with cargo kani -Z c-ffi); its calls return any result their POSIX/Linux contract allows",
    "crate::posix::fcntl (8-line variadic FFI wrapper) is stubbed by mk::fcntl_model; its body is outside every claim",
    "popen::get_standard_stream is stubbed by a wrapper calling the real posix::make_standard_stream (Kani 0.68 cannot compile thread_local! with a destructor); the per-thread cache is outside the claim",
    "CBMC run with unwinding assertions on; memory-safety and overflow instrumentation off (the properties are functional)",
    "EINTR is not injected",
]

SPAWN_UW = [(r"vh_popen::make_streams", 4), (r"drop_glue::<\[", 5), (r"vh_popen::split_n", 20), (r"vh_popen::spawn_parent", 17)]

REG = {}


class PyItem:
    """a check implemented by a python module exposing run(tier, seed) -> result dict
    (SMT encodings generated from the MIR, extracted cfg(windows) code); such modules
    replay their own counterexamples natively before returning status "fail"."""

    def __init__(self, name, path, tier):
        self.name = name
        self.path = path
        self.tier = tier
        self.kind = "proof"

    def run(self, seed):
        import importlib.util
        spec = importlib.util.spec_from_file_location("vmod_" + self.name, self.path)
        mod = importlib.util.module_from_spec(spec)
        spec.loader.exec_module(mod)
        res = mod.run(self.tier, seed)
        res.setdefault("harness", self.name)
        res.setdefault("kind", "proof")
        res["self_replayed"] = True
        return res


MODS = {"popen": "popen::vh_popen::", "popen_os": "popen::os::vh_popen_os::", "posix": "posix::vh_posix::",
        "comm": "communicate::vh_comm::", "comm_raw": "communicate::raw::vh_comm_raw::",
        "exec": "builder::exec::vh_exec::", "pipeline": "builder::pipeline::vh_pipeline::", "builder": "builder::vh_builder::"}


def H(mod, name, **kw):
    return Harness(MODS[mod] + name, **kw)


SPAWN_BOUNDS = {"stream_config": "symbolic: all 5x5x5 of {None,Pipe,Merge,File,RcFile}, shared/unshared Rc<File>, file close-on-exec flag",
                "earlier_popens_alive": "0..2 (child role) / 2 (parent role)", "argv": "[\"/p\"]", "signal_mask": "any u64", "fd_table": 16}
SPAWN_ENC = ["Popen::create", "Popen::setup_streams (+ prepare_pipe, prepare_file, prepare_rc_file, reuse_stream)", "PopenOs::os_start",
             "PopenOsImpl::do_exec", "os::set_inheritable", "os::make_pipe", "Drop for Popen", "PopenOs::os_wait", "PopenOsImpl::waitpid",
             "posix::{pipe,fork,dup2,prep_exec,PrepExec::{new,exec,assemble_exe,libc_exec},CVec::new,reset_sigpipe,make_standard_stream,waitpid,_exit,check_err}"]
SPAWN_ASSUME = COMMON_ASSUME + ["parent fds 0,1,2 are open; new descriptors are allocated lowest-free (POSIX)",
                                "io::Error's CustomOwner::outer_drop function pointer is pinned to alloc's drop_box_raw::<Custom> (the only value ever stored there); virtual calls restricted by -Z restrict-vtable"]


def spawn_child_h():
    return H("popen", "h_spawn_child", unwind=3, unwindset=SPAWN_UW, timeout=1500, bounds=SPAWN_BOUNDS,
             covers=["COVER/exec-started", "COVER/fork-child-role", "COVER/invalid-config-returned"])


def spawn_parent_h():
    return H("popen", "h_spawn_parent", unwind=3, unwindset=SPAWN_UW, timeout=1500, bounds=SPAWN_BOUNDS, covers=["COVER/parent-ok"])


def fail_parent_h():
    b = dict(SPAWN_BOUNDS)
    b.update({"fault_point": "k-th of the pipe/fcntl/fork calls, k in 1..=17 (there are at most 15), or child-side failure reported on the status pipe",
              "errno": "any 1..=4095", "detached": "any"})
    return H("popen", "h_fail_parent", unwind=3, unwindset=SPAWN_UW, timeout=2400, bounds=b,
             covers=["COVER/parent-launch-error", "COVER/parent-fault-pipe", "COVER/parent-fault-fcntl", "COVER/parent-fault-fork"])


REG["C05"] = Spec(
    quick=[spawn_child_h(), spawn_parent_h()],
    encodes=SPAWN_ENC,
    bounds="configuration space finite and covered completely and symbolically: 5x5x5 redirection kinds, shared/unshared Rc<File>, file close-on-exec flag, 0..2 earlier Popens alive; descriptor table of 16 entries; one spawn (repeated spawns follow by induction on the pre-state invariant: fds 0-2 open and untouched)",
    outside="parents whose fds 0-2 are closed; the STREAMS thread-local cache (short-lived threads: only make_standard_stream's leaked Rc is encoded); Windows",
    assumptions=SPAWN_ASSUME,
    explanation="bounded model checking (Kani -> CBMC, SAT) of the real spawn path in child role (wiring asserted inside the model exec) and in parent role (handles, identity of parent ends, own std streams) over a fully symbolic stream configuration",
)

REG["C07"] = Spec(
    quick=[fail_parent_h(), spawn_parent_h()],
    encodes=SPAWN_ENC,
    bounds="every stream configuration x every injection point of the parent side (k-th pipe()/fcntl()/fork() failing, k symbolic) x child-side failure reported through the status pipe x errno 1..=4095 x detached",
    outside="short or failing read of the 4-byte status report; EINTR; child-side steps themselves (h_fail_child, see C07 child harness)",
    assumptions=SPAWN_ASSUME + ["a child whose launch failed _exit()s right after reporting (model: becomes a zombie when the report is read)"],
    explanation="bounded model checking of Popen::create in parent role with symbolic fault injection in the model kernel; asserted at return: Ok iff started, exact errno, descriptor table back to the pre-call table, forked child reaped",
)

def boundary_kf():
    return H("popen", "h_spawn_boundary_kf", unwind=3, unwindset=SPAWN_UW, timeout=1200, kind="kf",
             bounds={"stream_config": "stdin=Pipe, stdout=Pipe, stderr=None", "boundary": "every model call made by the spawning thread during Popen::create"})


REG["C08"] = Spec(
    quick=[spawn_child_h(), spawn_parent_h(), boundary_kf()],
    encodes=SPAWN_ENC,
    bounds="single spawn from a pre-state holding 0..2 earlier Popens' parent ends (invariant: close-on-exec), every stream configuration",
    outside="two spawns actually interleaving on different threads (see known finding: pipe()+fcntl window); pipelines (C13 harness)",
    assumptions=SPAWN_ASSUME,
    explanation="inductive step over spawn histories: pre-state = arbitrary earlier parent ends satisfying the invariant, one real Popen::create; at the model exec no library pipe end above fd 2 survives; after create every parent end is close-on-exec and every child end is closed in the parent",
)

REG["C18"] = Spec(
    quick=[spawn_child_h()],
    encodes=["posix::reset_sigpipe", "PopenOsImpl::do_exec", "PopenOs::os_start"],
    bounds="spawning thread's signal mask: any of 2^64; SIGPIPE ignored in the parent; every stream configuration",
    outside="pipeline stages (same do_exec, covered by the C13 pipeline harness)",
    assumptions=SPAWN_ASSUME,
    explanation="bounded model checking of the child role: at the model exec the mask is empty and SIGPIPE is at default, on every path that reaches exec",
)


LIFE_BOUNDS = {"pre_state": "any state satisfying invariant I (Running{pid} with the model child running / zombie / reaped by someone else; Finished(s) with s = truth or Undetermined)",
               "status_word": "exit(c) for all c in 0..=255; fatal signal s in 1..=126 with and without core flag",
               "world": "child may exit and a foreign waiter may reap it at every system call (both switches symbolic)",
               "operation": "one of poll, wait, wait_timeout(0), send_signal(any i32), terminate, kill, detach, pid/exit_status"}
LIFE_ENC = ["Popen::{poll,wait,wait_timeout,pid,exit_status,detach,terminate,kill}", "PopenOs::{os_wait,os_wait_timeout,os_terminate,os_kill}",
            "PopenOsImpl::waitpid", "PopenExt::send_signal", "posix::{waitpid,decode_exit_status,kill,check_err}", "libc::{WIFEXITED,WEXITSTATUS,WIFSIGNALED,WTERMSIG}", "Drop for Popen"]
LIFE_ASSUME = COMMON_ASSUME[:1] + COMMON_ASSUME[3:] + [
    "waitpid fails only with ECHILD (child reaped elsewhere) or, for the blocking wait() under test in h_life_step/h_life_seq/h_life_pair, with an injected EINTR while the child runs; stopped/continued children are not reported (no WUNTRACED)",
    "the platform-specific part of ChildState::Running (ext) is arbitrary (trait AnyExt: (), bool, integers, Option of those); a killpg() call is a C10 violation in the model kernel",
    "io::Error's CustomOwner::outer_drop function pointer pinned; virtual calls restricted by -Z restrict-vtable"]


def life_step():
    return H("popen", "h_life_step", unwind=3, unwindset=[(r"os_wait_timeout", 4)], timeout=1200, bounds=LIFE_BOUNDS, covers=["COVER/wait-on-running", "COVER/wait-interrupted"])


def life_seq():
    b = dict(LIFE_BOUNDS)
    b["operation"] = "three operations in sequence from Running (needs no invariant)"
    return H("popen", "h_life_seq", unwind=3, unwindset=[(r"os_wait_timeout", 4)], timeout=3600, mem_gb=24, bounds=b)


def life_drop():
    return H("popen", "h_life_drop", unwind=3, timeout=1200, bounds=LIFE_BOUNDS)


REG["C09"] = Spec(
    quick=[life_step(), life_drop()],
    thorough=[life_step(), life_drop(), life_seq()],
    encodes=LIFE_ENC,
    bounds={"quick": "inductive step: one symbolic operation from every state satisfying invariant I; all exit codes 0..=255 and signals 1..=126", "thorough": "plus every sequence of three operations from Running"},
    outside="waitpid returning a different pid than asked; stopped children; Windows",
    assumptions=LIFE_ASSUME,
    explanation="inductive step over API histories: symbolic pre-state constrained by invariant I, one real operation against a model child that may exit / be reaped by a foreign waiter at every system call; I and the reported-status oracle asserted afterwards",
)
def life_pair():
    b = dict(LIFE_BOUNDS)
    b["operation"] = "a query (poll / wait / wait_timeout(0)) followed by a signalling call"
    return H("popen", "h_life_pair", unwind=3, unwindset=[(r"os_wait_timeout", 4)], timeout=2400, bounds=b, covers=["COVER/foreign-reap-observed"])


def life_pair_q():
    b = dict(LIFE_BOUNDS)
    b["operation"] = "poll() followed by terminate()"
    return H("popen", "h_life_pair_q", unwind=3, unwindset=[(r"os_wait_timeout", 4)], timeout=1800, bounds=b, covers=["COVER/foreign-reap-observed"])


REG["C10"] = Spec(
    quick=[life_step(), life_pair_q()],
    thorough=[life_step(), life_pair(), life_seq()],
    encodes=LIFE_ENC,
    bounds={"quick": "one signalling call (any i32 signal number, SIGTERM, SIGKILL) from every state satisfying invariant I; kill() succeeds or fails", "thorough": "plus sequences of three operations where reaping and signalling interleave"},
    outside="Windows TerminateProcess path",
    assumptions=LIFE_ASSUME,
    explanation="the model kill() logs (pid, signal) and asserts the pid was not reaped by this Popen; harness asserts exactly one kill with the requested signal while Running, none once Finished",
)


def wait_h(name, uw, b):
    return H("popen", name, unwind=3, unwindset=[(r"os_wait_timeout", uw)], timeout=3000, mem_gb=20, bounds=b,
             covers=["COVER/wait-timeout-exited"] + (["COVER/wait-timeout-expired"] if "small" in name else []))


WB = {"clock": "virtual monotonic clock, start any (sec < 2^40, nsec); advances only in sleeps (no drift)", "child": "exits at any status check or never; pre-state any (also already Finished)"}
WBACK = H("popen", "h_wait_backoff", unwind=3, unwindset=[(r"os_wait_timeout", 12)], timeout=1800, mem_gb=20, covers=["COVER/steady-state-reached"],
          bounds={"d": "10 s from t = 0 (concrete)", "child": "exits at any of the first 10 status checks", "iterations": "11 (1..64 ms doubling, then 100 ms steady state)"})
REG["C11"] = Spec(
    quick=[life_step(), WBACK,
           wait_h("h_wait_small", 7, dict(WB, d="0..=20 ms, nanosecond resolution (doubling phase 1,2,4,8 ms + clipped last sleep)")),
           wait_h("h_wait_large", 7, dict(WB, d="1 s .. 2^40 s; child exits within the first 4 back-off intervals"))],
    thorough=[life_step(),
              wait_h("h_wait_small_t", 12, dict(WB, d="0..=420 ms (whole doubling phase 1..64 ms and three steady-state 100 ms iterations)")),
              wait_h("h_wait_large_t", 12, dict(WB, d="1 s .. 2^40 s; child exits within the first 9 back-off intervals"))],
    encodes=["Popen::{poll,wait_timeout}", "PopenOs::os_wait_timeout", "PopenOsImpl::waitpid", "std::time::{Instant,Duration} arithmetic", "std::thread::sleep"],
    bounds={"quick": "d in [0,20 ms] complete; d in [1 s, 2^40 s] for the first 4 iterations", "thorough": "d in [0,420 ms] complete; large d for the first 9 iterations (steady state reached: later iterations repeat the 100 ms body)"},
    outside="real scheduler oversleep (the model sleeps exactly); 'still running' for d > 420 ms (needs more iterations than the bound; the loop body is uniform from the 8th iteration on); Windows WaitForSingleObject",
    assumptions=LIFE_ASSUME + ["the clock advances only while sleeping (zero drift between clock reads)"],
    explanation="virtual clock: time is a symbolic variable; the model nanosleep asserts each requested sleep is <= 100 ms, never passes the deadline, is >= 1 ms unless it ends exactly at the deadline, and doubles; at return None implies now >= deadline; number of status checks <= sleeps + 1",
)
def life_op_drop():
    b = dict(LIFE_BOUNDS)
    b["operation"] = "one operation (poll, wait, wait_timeout(0), send_signal, terminate, kill, pid/exit_status), then drop"
    return H("popen", "h_life_op_drop", unwind=3, unwindset=[(r"os_wait_timeout", 4)], timeout=1800, bounds=b, covers=["COVER/kill-then-drop"])


REG["C12"] = Spec(
    quick=[life_drop(), life_op_drop(), spawn_parent_h()],
    encodes=["Drop for Popen", "Popen::detach", "PopenOs::os_wait", "Popen::create (parent role)"],
    bounds="drop of a bare Popen from every state satisfying invariant I (detached or not); drop right after a successful create for every stream configuration",
    outside="the stream adapters and join/capture terminators (adapter harnesses: see level_note / DESIGN.md)",
    assumptions=LIFE_ASSUME,
    explanation="drop of a non-detached Popen ends with its child reaped; drop of a detached Popen makes no wait call and does not reap",
)
C06_B = {"argv": "[\"/p\", a] with a of concrete length 0, 1, 2 over all 255 non-NUL byte values per position; argv of 1 element; optional executable override", "nul": "a NUL at any position of a 1- or 2-byte argument"}
REG["C06"] = Spec(
    quick=[H("popen", n, unwind=3, unwindset=SPAWN_UW + [(r"mk::proc_::c(str_eq|06_checks)", 10), (r"memchr", 8), (r"memcmp", 8), (r"strlen", 8), (r"posix::split_path", 8), (r"position", 8), (r"PrepExec", 6), (r"vh_posix::", 14), (r"mk::proc_::exec_common", 14)], timeout=1500, bounds=C06_B)
           for n in ("h_argv_s2", "h_argv_s1", "h_argv_e", "h_argv_none", "h_argv_nul_s2", "h_argv_nul_s1", "h_ident", "h_exe_override_sb", "h_exe_override_bs", "h_exe_override_bb")],
    encodes=["Popen::create", "PopenOs::os_start", "PopenOsImpl::do_exec", "posix::{os_to_cstring,CVec::new,CVec::as_c_vec,prep_exec,PrepExec::{new,exec,assemble_exe,libc_exec},setuid,setgid,setpgid}", "std::env::set_current_dir"],
    bounds="argument vectors of 1..=2 entries, the symbolic entry of length 0..=2 over all non-NUL bytes (so empty, blank, quote and non-UTF-8 arguments are in); NUL anywhere; cwd of 2 symbolic bytes; setuid/setgid any u32 (uid != 0), each present or absent, setpgid on/off; parent is root",
    outside="vectors of 3+ arguments and arguments of 3+ bytes (SAT back end out of memory at 14 GB, measured); the environment de-duplication (format_env over HashSet/SipHash: CBMC does not finish in 20 min even with concrete names, measured) -- only 'environment unspecified => execv (inherit)' is decided; Windows format_env_block",
    assumptions=SPAWN_ASSUME + ["credentials follow POSIX: setuid as root sets all three ids; setgid needs euid 0 or a matching real/saved gid"],
    explanation="child role: the model exec compares the argv array, program path, cwd and credentials it receives with the harness's own copy of the request",
)


POSIX_UW = [(r"vh_posix::(lookup_all_masks|h_alloc_path)", 18), (r"\.work/gen/posix\.rs", 8), (r"vh_posix::", 14), (r"strlen", 8), (r"memchr", 8), (r"memcmp", 8), (r"posix::split_path", 8),
            (r"position", 8), (r"PrepExec", 6), (r"mk::proc_::exec_common", 14)]
LK_B = {"PATH": "every string of exactly n bytes over {':', 'd'} (shape case-split inside the harness, all 2^n shapes), n = 1..=4", "command": "\"c\" or \"cc\"",
        "candidate_fate": "each of up to 3 candidates: starts / ENOENT / EACCES / ENOTDIR (symbolic)"}


def lookup_h(n):
    return H("posix", "h_lookup_%d" % n, unwind=3, unwindset=POSIX_UW, timeout=1500, bounds=dict(LK_B, n=n))


REG["C15"] = Spec(
    quick=[H("posix", "h_split", unwind=3, unwindset=POSIX_UW, timeout=900, covers=["COVER/three-path-entries", "COVER/only-empty-entries"],
             bounds={"PATH": "every byte string of length 0..=5 over all 256 byte values"}),
           lookup_h(1), lookup_h(2), lookup_h(3),
           H("posix", "h_lookup_nosearch", unwind=3, unwindset=POSIX_UW, timeout=900, covers=["COVER/no-search"],
             bounds={"cases": "name with leading slash, name with embedded slash, PATH unset, PATH empty, PATH=\"d:\" through the real prep_exec"})],
    thorough=[H("posix", "h_split", unwind=3, unwindset=POSIX_UW, timeout=900), lookup_h(1), lookup_h(2), lookup_h(3), lookup_h(4),
              H("posix", "h_lookup_nosearch", unwind=3, unwindset=POSIX_UW, timeout=900)],
    encodes=["posix::split_path", "posix::prep_exec", "posix::PrepExec::{new,exec,assemble_exe,libc_exec}", "posix::CVec::new"],
    bounds="tokenizer: all byte strings up to 5 bytes; lookup: all PATH shapes up to 3 (quick) / 4 (thorough) bytes = up to 2-3 entries incl. empty, duplicate and only-empty entries, every combination of candidate fates",
    outside="very long entries (buffer sizing is C17's harness); PATH bytes other than ':'/'d' in the lookup harnesses (arbitrary bytes are covered for the tokenizer only); the executable override (os_start passes it as cmd: same function); std::env::var_os is stubbed by a model environment in h_lookup_nosearch (std's implementation exhausts the SAT back end, measured)",
    assumptions=COMMON_ASSUME[:1] + COMMON_ASSUME[3:] + ["exec of a candidate either starts it or fails with ENOENT/EACCES/ENOTDIR"],
    explanation="the model exec records every candidate path and answers from a symbolic per-candidate verdict; asserted: candidate sequence = <entry>/<name> for the non-empty entries in order, each once, stop at the first that starts, Err with the last candidate's errno when none starts, never Ok without exec",
)
REG["C17"] = Spec(
    quick=[H("popen", "h_alloc_witness", unwind=3, timeout=300),
           H("popen", "h_alloc_child", unwind=3, unwindset=SPAWN_UW, timeout=1800, bounds=dict(SPAWN_BOUNDS, child_steps="no failure, or the k-th of chdir/dup2/setuid/setgid/setpgid/exec fails (k symbolic)", cwd="absent or \"/d\"")),
           H("popen", "h_alloc_nulcwd", unwind=3, unwindset=SPAWN_UW + [(r"memchr", 8)], timeout=900, covers=["COVER/child-exit"], bounds={"cwd": "\"a\\0b\" (refused by std without errno)"}),
           H("posix", "h_alloc_path", unwind=3, unwindset=POSIX_UW, timeout=1500, covers=["COVER/two-candidates-assembled"],
             bounds={"PATH": "all 16 shapes of 4 bytes over {':','d'} (longest entry first/last, only empty entries)", "command": "\"cc\"", "fates": "symbolic"})],
    encodes=["PopenOs::os_start (child branch)", "PopenOsImpl::do_exec", "posix::PrepExec::{exec,assemble_exe,libc_exec}", "posix::reset_sigpipe", "error report path (write_all to the status pipe, _exit)", "std::env::set_current_dir"],
    bounds="every stream configuration; success and each child-side step failing; PATH shapes of 4 bytes; cwd short (stack buffer path of std's run_with_cstr)",
    outside="cwd of 384+ bytes (std allocates a CString for long paths -- in std, not in the crate); deallocation is not counted; allocation inside libc calls",
    assumptions=SPAWN_ASSUME + ["observer: Kani's C model of __rust_alloc/__rust_alloc_zeroed/__rust_realloc with a counter increment added at link time (below every std container; h_alloc_witness proves Vec/Box/CString/Rc allocations and Vec growth move it, and a write within capacity does not)"],
    explanation="the model fork snapshots an allocation counter in child role; every later model call (each child-side step, exec, the error report write, _exit) asserts the counter has not moved",
)


REG["C19"] = Spec(
    quick=[PyItem("c19_smt", "/verif/enc/c19/run.py", "quick")],
    thorough=[PyItem("c19_smt", "/verif/enc/c19/run.py", "thorough")],
    encodes=["builder::exec::Exec::display_escape", "display_escape::nice_char"],
    bounds={"quick": "every Unicode string (code points 1..0x10FFFF minus surrogates) of length 0..=4", "thorough": "length 0..=6"},
    outside="joining of words (to_cmdline_lossy / Debug: command first, arguments in order separated by single spaces, stages joined by ' | ') -- Kani cannot execute the String formatting in useful time (measured in round 0) and the Exec-based harnesses exhaust the SAT back end; non-Unicode OsStr; to_string_lossy; reserved words in command position",
    assumptions=["Iterator::all, str::chars, str::replace, fmt::format and Cow behave as documented (std is not translated); the composed model is validated on every run against the compiled source text of display_escape on the repo's own test strings plus 300 seeded random strings",
                 "POSIX sh word parsing as encoded by the automaton (unquoted / single-quoted / backslash); every accepted word is additionally evaluated with the real /bin/sh during validation"],
    explanation="nice_char is translated statement by statement from the nightly's MIR into a bit-vector predicate; display_escape is recognised structurally and its constants extracted; the negated round-trip property over bounded code-point sequences is discharged by z3 and cross-checked with cvc5; a sat answer is replayed against the compiled function and the real sh",
)
REG["C20"] = Spec(
    quick=[PyItem("c20", "/verif/enc/c20/run.py", "quick")],
    thorough=[PyItem("c20", "/verif/enc/c20/run.py", "thorough")],
    encodes=["popen::os::assemble_cmdline (cfg(windows), source text extracted)", "popen::os::append_quoted (cfg(windows), source text extracted)"],
    bounds={"quick": "argument vectors of 1..=2 arguments, each 0..=3 UTF-16 units, every unit over all 65536 values", "thorough": "up to 3 arguments x up to 4 units (selected length vectors)"},
    outside="execution on Windows, CreateProcess itself; longer arguments (same loop bodies)",
    assumptions=["argv[0] contains no double quote and, when it needs quoting, does not end in a backslash (program-name parsing rule does not unescape)",
                 "under Kani, Vec in the extracted text is a fixed-capacity array-backed model (overflow is an assertion failure); the native replayer runs the same text on std::Vec",
                 "reference parser written from the documented Microsoft CRT / CommandLineToArgvW rules; an independent Python transcription must agree with it on Microsoft's published examples"],
    explanation="the cfg(windows) functions are extracted textually on every run, compiled against a UTF-16 shim and model-checked by Kani/CBMC: parse_ms(assemble_cmdline(argv)) == argv for symbolic contents; counterexamples are replayed natively against an independent parser",
)


COMM_UW = [(r"vh_comm::", 14), (r"read_into", 6), (r"mk::comm::", 5), (r"posix::poll", 3), (r"memcmp", 8)]
COMM_ENC = ["communicate::communicate", "Communicator::{new,read,limit_size,limit_time}", "raw::RawCommunicator::{new,read,read_into,do_read}", "raw::maybe_poll",
            "raw::as_pollfd", "posix::{poll,PollFd::new,PollFd::test,check_err}", "std::fs::File::{read,write,drop}", "std::time::{Instant,Duration}"]
COMM_ASSUME = COMMON_ASSUME[:1] + COMMON_ASSUME[3:] + [
    "Linux pipe semantics: POLLIN iff buffered > 0, POLLHUP iff no writer, POLLOUT iff free >= PIPE_BUF, POLLERR iff no reader; write(n <= PIPE_BUF) atomic; short reads",
    "the child may, at every parent system call, read any part of its stdin, write anything that fits to stdout/stderr, and close any stream; it cannot re-open a stream",
    "a child blocked in poll/read/write of the parent is eventually served (fairness is used only to let a blocking call return, never to prove progress)",
    "do_read's 4096-byte stack buffer is 8 bytes in the mounted copy (see size_cuts_in_mounted_copy); per-system-call transfers <= 3 bytes",
    "io::Error's CustomOwner::outer_drop function pointer pinned; virtual calls restricted by -Z restrict-vtable"]
CB = {"transfer": "1..=3 bytes per system call (parent results and child actions)", "pipe_capacity": "4096..=2^20 (symbolic)", "content": "position-tagged bytes g(tag, pos), tag symbolic per stream"}


SPIN = [(r"read_into", "C01/loop-iterates-without-system-call: the communicate loop ran more iterations than the system-call budget allows, i.e. it iterates without issuing any system call (spinning)")]


def comm_h(name, streams, input_len, budget, kind="proof", timeout=2400, **kw):
    return H("comm", name, unwind=3, unwindset=[(r"read_into", budget + 2)] + COMM_UW, timeout=timeout, mem_gb=20, kind=kind, spin_loops=SPIN,
             bounds=dict(CB, streams=streams, input_len=input_len, parent_syscalls=budget), **kw)


TR_IOE = comm_h("h_comm_trace_ioe", "stdin+stdout+stderr, fresh exchange", 2, 4)
TR_IO = comm_h("h_comm_trace_io", "stdin+stdout, fresh exchange", 1, 4)
TR_OE = comm_h("h_comm_trace_oe", "stdout+stderr, fresh exchange", 0, 4)
TR_O = comm_h("h_comm_trace_o", "stdout only (no-poll fast path), fresh exchange", 0, 4)
TR_I = comm_h("h_comm_trace_i", "stdin only (no-poll fast path), fresh exchange", 2, 4)
ST_IOE = comm_h("h_comm_step_ioe", "stdin+stdout+stderr, arbitrary mid-exchange state (fill levels, offsets up to 2^40, closed peers)", 2, 3)
ST_OE = comm_h("h_comm_step_oe", "stdout+stderr, arbitrary mid-exchange state", 0, 3)
LIM_OE = comm_h("h_comm_limit_oe", "stdout+stderr, two successive reads with symbolic limits n1, n2 >= 1, arbitrary start state", 0, 4, covers=["COVER/second-limited-read"])
LIM_IO = comm_h("h_comm_limit_io", "stdin+stdout, two successive limited reads", 2, 4)
def utf8_h(n):
    return H("comm", "h_utf8_lossy_%d" % n, unwind=n + 3, unwindset=[(r"memcmp", 20), (r"vh_comm::utf8_case", 14)], timeout=2400, mem_gb=30, bounds={"bytes": "every byte string of length %d (all 256^%d)" % (n, n)})


UTF8 = utf8_h(2)
UTF8_3 = utf8_h(3)
UTF8_4 = utf8_h(4)
TR_IO0 = comm_h("h_comm_trace_io0", "stdin+stdout with EMPTY input, fresh exchange", 0, 4)
BIGW = H("comm", "h_comm_bigwrite", unwind=3, unwindset=COMM_UW, timeout=2400, mem_gb=20,
         bounds={"streams": "stdin+stdout", "input_len": "9000 concrete bytes (> 2 x PIPE_BUF)", "transfer": "up to 8192 bytes per call (counts only; content check off)", "parent_syscalls": 3})

REG["C01"] = Spec(
    quick=[TR_IOE, TR_O, TR_I, TR_IO0, BIGW, ST_IOE],
    thorough=[TR_IOE, TR_IO, TR_OE, TR_O, TR_I, TR_IO0, BIGW, ST_IOE, ST_OE],
    encodes=COMM_ENC,
    bounds={"quick": "traces of 4 parent system calls from the start of an exchange for {in,out,err}, {out}, {in}; one inductive step of 3 system calls from an arbitrary mid-exchange state for {in,out,err}", "thorough": "plus {in,out}, {out,err} traces and the {out,err} step"},
    outside="Popen::communicate*/Exec::capture/Pipeline::capture wrappers (they hand their three files to the same loop); transfers larger than 3 bytes per call; the Windows helper-thread variant (threads + channel: no installed engine executes Rust threads symbolically)",
    assumptions=COMM_ASSUME,
    explanation="safety form of termination, asserted inside the model kernel: a write is never issued that can block (chunk <= PIPE_BUF and room available after POLLOUT), a read never blocks while other pipes are held, poll is never called with nothing to wait for, and between two consecutive polls a byte moved or a stream was retired (no spinning at end-of-file)",
)
REG["C02"] = Spec(
    quick=[TR_IOE, TR_O, TR_IO0, ST_IOE],
    thorough=[TR_IOE, TR_IO, TR_OE, TR_O, TR_I, TR_IO0, ST_IOE, ST_OE],
    encodes=COMM_ENC + ["communicate::from_utf8_lossy"],
    bounds={"quick": "as C01 quick; input of 2 symbolic bytes (and the empty input); output offsets symbolic up to 2^40 in the step harness", "thorough": "all stream subsets"},
    outside="the text-returning variants (from_utf8_lossy helper / read_string / CaptureData::stdout_str): std's UTF-8 validation and lossy decoding exhaust the SAT back end even for 2 symbolic bytes (30 GB, measured; harnesses h_utf8_lossy_* kept unregistered); single transfers longer than 3 bytes; Windows read_and_transmit / writer closure (threads)",
    assumptions=COMM_ASSUME,
    explanation="stream bytes are position-tagged; the model write checks each byte handed to the child against the harness's copy of the input (once, in order) and the close of stdin against 'whole input accepted'; at return the vectors must equal exactly the bytes taken out of each pipe during the call, results are present iff piped, success without limits implies end-of-file everywhere",
)
LIM_Q1 = comm_h("h_comm_limit_q1", "stdout+stderr, one read with a symbolic limit n >= 1, arbitrary start state", 0, 3, covers=["COVER/cut-short-by-limit"])
LIM_Q2 = comm_h("h_comm_limit_q2", "stdout+stderr, two successive reads with symbolic limits n1, n2 >= 1 sharing 3 system calls, arbitrary start state", 0, 3)
REG["C03"] = Spec(
    quick=[LIM_Q1, LIM_Q2],
    thorough=[LIM_Q1, LIM_OE, LIM_IO],
    encodes=COMM_ENC,
    bounds={"quick": "one read (3 parent system calls) and two successive reads (3 system calls in total) with symbolic limits in 1..=usize::MAX from an arbitrary mid-exchange state; data available on both streams at once", "thorough": "two successive reads over 4 system calls, also with stdin"},
    outside="more than two reads in sequence (the second read starts from the state the first one leaves, which is inside the arbitrary start state of the harness); Windows leftover hand-over",
    assumptions=COMM_ASSUME,
    explanation="per read: total returned <= n, no read asks the kernel for more than the remaining allowance, pieces are consecutive (content check against pipe offsets), all-empty success only at end-of-file, a read stops short of n only at end-of-file, stdin stays open while input remains",
)
TQ = comm_h("h_comm_time_q", "stdout only, arbitrary state, time limit t in [0, 3 s), 2 parent system calls", 0, 2, covers=["COVER/read-timed-out"])
TO = comm_h("h_comm_time_o", "stdout only, arbitrary state, time limit t in [0, 3 s)", 0, 3, timeout=3000, covers=["COVER/read-timed-out"])
TBIG = comm_h("h_comm_time_big", "stdout only, t in [2147484 s, 6000000 s] (beyond the 2^31-1 ms poll limit)", 0, 3, timeout=3600)
TRES = comm_h("h_comm_time_resume", "stdout only, timed read then an unlimited read (resumption)", 0, 4, timeout=3600, covers=["COVER/resumed-after-error"])
TRES_IN = comm_h("h_comm_time_resume_in", "stdin+stdout, input of 2 bytes, timed read then an unlimited read (resumption of the input)", 2, 4, timeout=3600)
LATE = comm_h("h_comm_late_kf", "stdout only, streams stay ready past the deadline", 0, 4, kind="kf", timeout=3000)
PBIG = H("posix", "h_poll_big", unwind=3, unwindset=[(r"posix::poll", 5), (r"mk::comm::", 5)], timeout=2400, mem_gb=20, covers=["COVER/long-wait-expired"],
         bounds={"time_limit": "2147483 s .. 4400000 s (24.8 .. 50.9 days: from 2^31 ms to beyond 2^32 ms), whole seconds", "streams": "none ready, ever"})
REG["C04"] = Spec(
    quick=[ST_IOE, TQ, PBIG],
    thorough=[TR_IOE, ST_IOE, TO, TBIG, TRES, TRES_IN, PBIG, LATE],
    encodes=COMM_ENC + ["Communicator::limit_time", "posix::poll overflow loop"],
    bounds={"quick": "no time limit: never TimedOut (3-stream step harness); with limit t < 3 s: timeout only after t (to 1 ms), poll never asked to wait past the deadline; virtual clock with arbitrary sub-second start", "thorough": "plus t beyond 24.8 days (poll overflow loop unwound 3x), resumption after a timeout, the lateness obligation (known finding)"},
    outside="real scheduler latency; Windows recv_timeout path",
    assumptions=COMM_ASSUME + ["virtual clock: poll() that times out advances the clock by exactly its timeout; a poll that returns early advances it by any amount up to the timeout"],
    explanation="time is a symbolic variable: the model poll advances a virtual clock; TimedOut implies a limit was set and now + 1 ms > deadline; without a limit poll is always called with -1 and TimedOut is impossible; the timeout error carries exactly the bytes read during the call (content check) and a following read resumes at the pipe offsets",
)


EXEC_UW = [(r"vh_exec::", 8), (r"retain", 8), (r"memcmp", 8), (r"drop_glue", 8)]


def exec_h(name, **kw):
    return H("exec", name, unwind=4, unwindset=EXEC_UW, timeout=600, **kw)


REG["C16"] = Spec(
    quick=[exec_h("h_build_args", bounds={"calls": "arg, args([..2]), arg with symbolic 1-byte values"}),
           exec_h("h_shell", bounds={"string": "every 2-byte string without NUL"}),
           exec_h("h_clone", bounds={"edits_after_clone": "arg, env, env_remove on the original"}),
           exec_h("h_set_once_ok", bounds={"first_setting": "None, Pipe, Merge; Pipe twice"}),
           exec_h("h_set_twice_panics", expect_panic=r"is already set", bounds={"second_setting": "every (first, second) of {Pipe, Merge} x {None, Pipe, Merge} except Pipe-Pipe, for stdout and stderr"}),
           exec_h("h_stdin_data_refused", expect_panic=r"called with input data specified", bounds={"terminators": "the check_no_stdin_data guard as called by popen and join"})]
          + [exec_h(n, bounds={"sequence": n, "values": "symbolic non-NUL byte per edit", "inherited": "A=0 (model of the parent's environment)"})
             for n in ("h_env_rm_set", "h_env_set_set_rm", "h_env_clear_ext", "h_env_dup", "h_env_rm_other", "h_env_set_clear_set")],
    encodes=["Exec::{cmd,shell,arg,args,detached,ensure_env,env_clear,env,env_extend,env_remove,stdin,stdout,stderr,check_no_stdin_data}", "Clone for Exec", "PopenConfig::try_clone", "Redirection::try_clone"],
    bounds="builder calls on an Exec that is inspected, not run: fixed call sequences of length 3-4 (kinds and names concrete, values symbolic); six environment-edit interactions (remove-then-set, set-set-remove, clear-then-extend, duplicate names across calls, remove-inherited, set-clear-set)",
    outside="the step from the accumulated description to the running command (Exec::popen and every terminator: the SAT back end runs out of 26 GB, DESIGN 0.4) -- that argv and the effective environment reach the child is C06's claim for Popen::create; symbolic call sequences (symbolic Vec lengths exhaust the SAT back end); stdin set-once; PopenConfig::current_env is stubbed by a one-variable model environment",
    assumptions=["effective value of a variable = last entry of that name in config.env (what format_env passes on; decided natively by the replayer, not by the solver)",
                 "CBMC run with unwinding assertions on; Kani reports the builder's panic! as a failed check of the real code: the refusal harnesses must end in exactly that panic and their tagged assertion behind the call must be unreachable"],
    explanation="in-module harnesses read Exec's private fields after real builder calls and compare with a reference model (argument vector; two option cells for the variables A and B); refusals: the harness runs only refused combinations and must end in the builder's panic",
)
